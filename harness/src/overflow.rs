//! Generation-counter overflow (C08, C10, C19): hook H2 presets an empty archetype next to
//! 2^32 in a *reachable* combination, then ordinary churn crosses the boundary.

use crate::adapter::*;
use crate::engine::*;
use crate::history::{finish, flush_counts, post_step};
use crate::probe::ProbeCounts;
use crate::worlds::WorldOps;

pub fn run_overflow<W: WorldOps>(seed: u64, stream: u64, ops: usize, small: bool) -> crate::report::Report {
    let mut prof = Profile::base("overflow");
    prof.full_every = 4;
    prof.iter_every = 4;
    if small {
        prof.sample = 0;
        prof.api_subset = 3;
        prof.inv_all = false;
        prof.full_every = usize::MAX;
        prof.iter_every = 24;
    }
    let mut e: Engine<W> = Engine::new(seed, stream, prof);
    let mut pc = ProbeCounts::default();
    let narch = e.archs.len();
    let mut step = 0usize;
    let mut scenario = 0u64;
    while step < ops && !e.rep.failed() {
        // ---- scenario setup ----
        let ai = loop {
            let ai = e.rng.below(narch);
            if Some(ai) != e.never_populate {
                break ai;
            }
        };
        let shape = e.rng.below(4);
        let j = *e.rng.pick(&[0u32, 1, 1, 2, 3, 5, 8]);
        let cap = match shape {
            0 => 1,
            _ => 2 + e.rng.below(3),
        };
        let mut caps = vec![0usize; narch];
        caps[ai] = cap;
        let wi = e.new_world_with(&caps, 0);
        if e.rep.failed() {
            break;
        }
        let top = u32::MAX - j;
        let slots: Vec<(usize, u32)> = match shape {
            // one position (and so the archetype) next to the limit
            0 | 1 => vec![(e.rng.below(cap), top)],
            // two positions around 2^31: the archetype version overflows first
            2 => vec![(0, 1 << 31), (1, (1u32 << 31) - j)],
            // archetype next to the limit through many positions with small counters
            _ => {
                let each = top / cap as u32;
                let mut v: Vec<(usize, u32)> = (0..cap).map(|p| (p, each)).collect();
                // arch = 1 + sum(each - 1); top it up on position 0 so that arch == top
                let sum: u64 = 1 + v.iter().map(|(_, x)| *x as u64 - 1).sum::<u64>();
                v[0].1 += (top as u64 - sum) as u32;
                v
            }
        };
        e.preset_versions(wi, ai, &slots);
        e.rep.count(&format!("overflow.scenario.shape{shape}"));
        e.rep.seen("overflow_scenarios", (ai as u64) << 40 | (shape as u64) << 32 | (j as u64) << 8 | cap as u64);
        scenario += 1;
        // ---- churn across the boundary ----
        let n = 30 + e.rng.below(if small { 20 } else { 60 });
        for _ in 0..n {
            if step >= ops || e.rep.failed() || e.worlds[wi].is_none() {
                break;
            }
            e.rep.step = step;
            step += 1;
            let mut touched = Vec::new();
            let live: Vec<usize> = e.sl(wi).m.archs[ai].live.clone();
            let len = live.len();
            let capn = e.archs[ai].capacity(&e.sl(wi).w);
            match e.rng.weighted(&[40, 45, 6, 8, 3, 2]) {
                0 if len < capn || e.rng.chance(1, 6) => {
                    let path = e.rng.below(N_CREATES);
                    if let Some(u) = e.op_create(wi, ai, path) {
                        touched.push(u);
                    }
                }
                0 | 1 => {
                    if len > 0 {
                        let uid = live[e.rng.below(len)];
                        let (level, kind) = (e.rng.below(2), e.rng.below(4));
                        e.op_destroy(wi, uid, level, kind);
                        touched.push(uid);
                    } else {
                        let path = e.rng.below(N_CREATES);
                        if let Some(u) = e.op_create(wi, ai, path) {
                            touched.push(u);
                        }
                    }
                }
                2 => {
                    if len > 0 {
                        let uid = live[e.rng.below(len)];
                        let (api, kind) = (e.rng.below(N_WRITES), e.rng.below(4));
                        e.op_write(wi, uid, api, kind);
                        touched.push(uid);
                    }
                }
                3 => {
                    let salt = e.rng.next();
                    let w = *e.rng.pick(&[[30, 70, 0, 0], [0, 100, 0, 0], [50, 40, 5, 5]]);
                    e.op_iter_destroy(wi, Some(ai), 0, salt, w, &mut pc);
                }
                4 => {
                    // a clone carries the counters along
                    if let Some(w2) = e.op_clone(wi) {
                        if e.rng.chance(1, 2) {
                            e.op_drop_world(w2);
                        }
                    }
                }
                _ => e.op_break(wi),
            }
            if e.worlds[wi].is_some() {
                post_step(&mut e, wi, &touched, &mut pc);
            }
        }
        // ---- retire the scenario's worlds ----
        for w in e.live_worlds() {
            if !e.rep.failed() {
                for a in 0..narch {
                    e.check_invariants(w, a);
                }
                let full = e.prof.full_every != usize::MAX;
                e.probe(w, full, &[], &mut pc);
                e.check_iteration(w, &mut pc);
                e.op_drop_world(w);
                e.drain_registry_errors(None);
            }
        }
    }
    e.rep.step = step;
    e.rep.add("overflow.scenarios", scenario);
    finish(&mut e, &mut pc);
    flush_counts(&mut e, &pc);
    e.rep
}
