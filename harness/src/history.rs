//! The main loop of the history workloads (churn, values, drops, direct, iter, clone, events...).

use crate::adapter::*;
use crate::engine::*;
use crate::payload::with_reg;
use crate::probe::ProbeCounts;
use crate::worlds::WorldOps;

pub fn profile(name: &str) -> Option<Profile> {
    let mut p = Profile::base("churn");
    match name {
        "churn" => {}
        "values" => {
            p.name = "values";
            p.w_write = 60;
            p.w_create = 20;
            p.w_destroy = 18;
            p.full_every = 8;
        }
        "drops" => {
            p.name = "drops";
            p.w_within = 20;
            p.w_clone = 6;
            p.w_drop_world = 4;
            p.w_iter_destroy = 10;
            p.max_worlds = 4;
        }
        "direct" => {
            p.name = "direct";
            p.w_write = 5;
            p.sample = 12;
            p.full_every = 6;
            p.max_pop = 10;
        }
        "iter" => {
            p.name = "iter";
            p.iter_every = 1;
            p.w_break = 12;
            p.w_write = 5;
        }
        "iterdestroy" => {
            p.name = "iterdestroy";
            p.w_iter_destroy = 40;
            p.w_create = 40;
            p.w_destroy = 8;
            p.w_write = 5;
            p.full_every = 4;
        }
        "clone" => {
            p.name = "clone";
            p.w_clone = 14;
            p.w_drop_world = 4;
            p.max_worlds = 4;
            p.max_pop = 12;
            p.w_drain_refill = 4;
        }
        "capacity" => {
            p.name = "capacity";
            p.w_drain_refill = 12;
            p.w_within = 25;
            p.w_write = 2;
            p.w_hot_slot = 3;
            p.max_pop = 40;
        }
        "faults" => {
            p.name = "faults";
            p.w_fault = 60;
            p.w_clone = 4;
            p.w_drop_world = 2;
            p.max_pop = 8;
            p.full_every = 2;
            p.iter_every = 2;
            p.max_worlds = 3;
        }
        "events" => {
            p.name = "events";
            p.w_clear_events = 8;
            p.w_iter_destroy = 10;
            p.w_clone = 4;
            p.iter_every = 1;
        }
        _ => return None,
    }
    Some(p)
}

pub struct Outcome {
    pub rep: crate::report::Report,
    pub digest: u64,
}

pub fn run_history<W: WorldOps>(seed: u64, stream: u64, nops: usize, mut prof: Profile, scale_small: bool) -> Outcome {
    if scale_small {
        // interpreter scale (Miri): same generators, fewer probes per step
        prof.max_pop = prof.max_pop.min(8);
        prof.sample = 0;
        prof.api_subset = 2;
        prof.inv_all = false;
        prof.full_every = usize::MAX;
        prof.iter_every *= 6;
    }
    let mut e: Engine<W> = Engine::new(seed, stream, prof);
    let mut pc = ProbeCounts::default();
    e.new_world();
    let mut step = 0usize;
    while step < nops && !e.rep.failed() {
        e.rep.step = step;
        step_once(&mut e, &mut pc, scale_small);
        step += 1;
    }
    e.rep.step = step;
    finish(&mut e, &mut pc);
    flush_counts(&mut e, &pc);
    e.rep.add("digest_lo32", e.digest & 0xFFFF_FFFF);
    Outcome { digest: e.digest, rep: e.rep }
}

pub fn pick_live<W: WorldOps>(e: &mut Engine<W>, wi: usize) -> Option<usize> {
    let lives: Vec<usize> = e.slot(wi).m.archs.iter().flat_map(|a| a.live.iter().copied()).collect();
    if lives.is_empty() {
        None
    } else {
        Some(lives[e.rng.below(lives.len())])
    }
}

/// Picks an archetype to create in (never the one reserved to stay empty).
pub fn pick_arch<W: WorldOps>(e: &mut Engine<W>) -> usize {
    loop {
        let ai = e.rng.below(e.archs.len());
        if Some(ai) != e.never_populate {
            return ai;
        }
    }
}

/// Destroy target: uniform, first dense, last dense or most recently created.
pub fn pick_victim<W: WorldOps>(e: &mut Engine<W>, wi: usize) -> Option<usize> {
    let mode = e.rng.below(6);
    if mode < 3 {
        return pick_live(e, wi);
    }
    let ai = pick_arch(e);
    let dense = e.archs[ai].entities(&e.slot(wi).w);
    if dense.is_empty() {
        return pick_live(e, wi);
    }
    let h = match mode {
        3 => dense[0],
        4 => dense[dense.len() - 1],
        _ => {
            let m = &e.slot(wi).m;
            return m.archs[ai].live.iter().copied().max();
        }
    };
    e.slot(wi).m.issued.get(&h.raw()).copied().filter(|u| e.worlds[wi].as_ref().unwrap().m.ents[*u].alive).or_else(|| pick_live(e, wi))
}

pub fn step_once<W: WorldOps>(e: &mut Engine<W>, pc: &mut ProbeCounts, small: bool) {
    if e.live_worlds().is_empty() {
        e.new_world();
        if e.rep.failed() {
            return;
        }
    }
    // phases bias the create/destroy balance so that sizes sweep up and down
    if e.phase_left == 0 {
        e.phase = e.rng.below(5);
        e.phase_left = 20 + e.rng.below(if small { 60 } else { 300 });
        e.rep.count(["phase.steady", "phase.grow", "phase.shrink", "phase.tiny", "phase.drain"][e.phase]);
    }
    e.phase_left -= 1;
    let lw = e.live_worlds();
    let wi = *e.rng.pick(&lw);
    let p = e.prof.clone();
    let pop = e.slot(wi).m.live_count();
    let (mut wc, mut wd) = (p.w_create, p.w_destroy);
    match e.phase {
        1 => {
            wc *= 3;
            wd /= 3;
        }
        2 => {
            wd *= 3;
            wc /= 3;
        }
        3 => {
            if pop > 4 {
                wd *= 6;
                wc /= 4;
            }
        }
        4 => {
            wd *= 8;
            wc /= 8;
        }
        _ => {}
    }
    let cap_pop = p.max_pop * e.archs.len() / 2;
    if pop >= cap_pop {
        wc = 0;
    }
    let weights = [wc, p.w_within, wd, p.w_destroy_stale, p.w_iter_destroy, p.w_write, p.w_clone, p.w_drop_world, p.w_clear_events, p.w_hot_slot, p.w_drain_refill, p.w_break, p.w_fault];
    let op = e.rng.weighted(&weights);
    let mut touched: Vec<usize> = Vec::new();
    let mut extra_world: Option<usize> = None;
    match op {
        0 => {
            let ai = pick_arch(e);
            let path = *e.rng.pick(&[CR_W_CREATE, CR_A_CREATE, CR_W_CREATE_COMPONENTS]);
            if let Some(u) = e.op_create(wi, ai, path) {
                touched.push(u);
            }
        }
        1 => {
            let ai = pick_arch(e);
            let path = CR_W_WITHIN + e.rng.below(2);
            if let Some(u) = e.op_create(wi, ai, path) {
                touched.push(u);
            }
        }
        2 => {
            if let Some(uid) = pick_victim(e, wi) {
                let (level, kind) = (e.rng.below(2), e.rng.below(4));
                // the entity swapped into the hole is the last dense one: probe it too
                let ai = e.slot(wi).m.ents[uid].arch;
                let dense = e.archs[ai].entities(&e.slot(wi).w);
                if let Some(last) = dense.last() {
                    if let Some(lu) = e.slot(wi).m.issued.get(&last.raw()).copied() {
                        touched.push(lu);
                        let pos = dense.iter().position(|h| h.raw() == e.worlds[wi].as_ref().unwrap().m.ents[uid].handle.raw());
                        let class = match pos {
                            Some(0) if dense.len() == 1 => "only",
                            Some(0) => "first",
                            Some(p) if p + 1 == dense.len() => "last",
                            Some(_) => "middle",
                            None => "unknown",
                        };
                        e.rep.count(&format!("destroy.position.{class}"));
                    }
                }
                e.op_destroy(wi, uid, level, kind);
                touched.push(uid);
            }
        }
        3 if e.rng.chance(1, 3) => {
            // destroy through a stale direct handle: must be refused and change nothing
            let stale: Vec<usize> = {
                let m = &e.sl(wi).m;
                let n = m.directs.len();
                (n.saturating_sub(48)..n).filter(|i| m.archs[m.directs[*i].arch].removals > m.directs[*i].removals).collect()
            };
            if !stale.is_empty() {
                let di = stale[e.rng.below(stale.len())];
                let kind = 2 + e.rng.below(2);
                let level = e.rng.below(2);
                e.op_destroy_stale_direct(wi, di, level, kind);
            }
        }
        3 => {
            let (nr, na) = (e.sl(wi).m.dead_recent.len(), e.sl(wi).m.dead_all.len());
            if na > 0 {
                let uid = if e.rng.chance(2, 3) && nr > 0 {
                    let i = e.rng.below(nr);
                    e.sl(wi).m.dead_recent[i]
                } else {
                    let i = e.rng.below(na);
                    e.sl(wi).m.dead_all[i]
                };
                let (level, kind) = (e.rng.below(2), e.rng.below(2));
                e.op_destroy(wi, uid, level, kind);
                touched.push(uid);
            }
        }
        4 => {
            let salt = e.rng.next();
            let weights = match e.rng.below(4) {
                0 => [50, 50, 0, 0],
                1 => [10, 85, 2, 3],
                2 => [60, 25, 6, 9],
                _ => [0, 100, 0, 0],
            };
            if e.rng.chance(1, 2) {
                let ai = pick_arch(e);
                e.op_iter_destroy(wi, Some(ai), 0, salt, weights, pc);
            } else {
                let q = e.rng.below(e.queries.len());
                e.op_iter_destroy(wi, None, q, salt, weights, pc);
            }
        }
        5 => {
            if let Some(uid) = pick_live(e, wi) {
                let api = e.rng.below(N_WRITES);
                let kind = e.rng.below(4);
                e.op_write(wi, uid, api, kind);
                touched.push(uid);
            }
        }
        6 => {
            extra_world = e.op_clone(wi);
        }
        7 => {
            if e.live_worlds().len() > 1 || e.rng.chance(1, 3) {
                e.op_drop_world(wi);
                e.drain_registry_errors(None);
                return;
            }
        }
        8 => e.op_clear_events(wi),
        9 => {
            let ai = pick_arch(e);
            let big = e.rng.chance(1, 10);
            let n = if small { 2 + e.rng.below(6) } else { 10 + e.rng.below(if big { 3000 } else { 120 }) };
            touched = e.op_hot_slot(wi, ai, n);
        }
        10 => {
            let ai = pick_arch(e);
            e.op_drain_refill(wi, ai);
        }
        11 => e.op_break(wi),
        _ => {
            touched = e.op_fault(wi, pc);
        }
    }
    if e.worlds[wi].is_none() {
        return;
    }
    post_step(e, wi, &touched, pc);
    if let Some(w2) = extra_world {
        if e.worlds[w2].is_some() {
            // a fresh clone must answer every probe like its source
            for ai in 0..e.archs.len() {
                e.check_invariants(w2, ai);
            }
            let full = e.prof.full_every != usize::MAX;
            e.probe(w2, full, &[], pc);
            e.probe(wi, full, &[], pc);
            e.check_iteration(w2, pc);
            e.check_events(w2);
        }
    }
}

pub fn post_step<W: WorldOps>(e: &mut Engine<W>, wi: usize, touched: &[usize], pc: &mut ProbeCounts) {
    e.drain_registry_errors(Some(wi));
    if e.rep.failed() {
        return;
    }
    let touched_archs: Vec<usize> = touched.iter().map(|u| e.sl(wi).m.ents[*u].arch).collect();
    for ai in 0..e.archs.len() {
        if e.prof.inv_all || touched_archs.contains(&ai) || e.rng.chance(1, 4) {
            e.check_invariants(wi, ai);
        }
        if e.rep.failed() {
            return;
        }
    }
    let step = e.rep.step;
    let full = e.prof.full_every != usize::MAX && step % e.prof.full_every == 0;
    e.probe(wi, full, touched, pc);
    if step % e.prof.iter_every == 0 {
        e.check_iteration(wi, pc);
        e.check_events(wi);
    }
    if step % 64 == 0 {
        e.sweep_registry();
    }
    // untouched worlds must not have moved (independence): cheap check every few steps
    if step % 8 == 0 {
        for ow in e.live_worlds() {
            if ow != wi {
                for ai in 0..e.archs.len() {
                    e.check_invariants(ow, ai);
                }
                e.probe(ow, false, &[], pc);
            }
        }
    }
    if step % 4096 == 4095 {
        let below = with_reg(|r| r.state.keys().next_back().copied().unwrap_or(0)).saturating_sub(100_000);
        with_reg(|r| r.compact(below));
    }
}

pub fn finish<W: WorldOps>(e: &mut Engine<W>, pc: &mut ProbeCounts) {
    if e.rep.failed() {
        return;
    }
    for wi in e.live_worlds() {
        for ai in 0..e.archs.len() {
            e.check_invariants(wi, ai);
        }
        let full = e.prof.full_every != usize::MAX;
        e.probe(wi, full, &[], pc);
        e.check_iteration(wi, pc);
        e.check_events(wi);
    }
    e.sweep_registry();
    for wi in e.live_worlds() {
        e.op_drop_world(wi);
    }
    e.drain_registry_errors(None);
    e.sweep_registry();
    let live = with_reg(|r| r.live_count());
    if live != e.leaked.len() && !e.rep.failed() {
        e.viol(None, &["C04"], "registry-final", format!("{} component tokens still alive after every world was dropped (leak)", live - e.leaked.len()));
    }
}

pub fn flush_counts<W: WorldOps>(e: &mut Engine<W>, pc: &ProbeCounts) {
    let mut cells = 0u64;
    for api in 0..N_LOOKUPS {
        for kind in 0..4 {
            for alive in 0..2 {
                for acc in 0..2 {
                    let n = pc.lk[api][kind][alive][acc];
                    if n > 0 {
                        cells += 1;
                        e.rep.add(&format!("lookup|{}|{}|{}|{}", LOOKUP_NAMES[api], KEY_KINDS[kind], if alive == 1 { "valid" } else { "stale" }, if acc == 1 { "accepted" } else { "rejected" }), n);
                    }
                }
            }
        }
    }
    e.rep.add("max_lookup_matrix_cells", cells);
    for (i, a) in ["no-removal", "removal-since"].iter().enumerate() {
        for (j, b) in ["no-creation", "creation-since"].iter().enumerate() {
            for (k, c) in ["rejected", "accepted"].iter().enumerate() {
                if pc.direct[i][j][k] > 0 {
                    e.rep.add(&format!("direct|{a}|{b}|{c}"), pc.direct[i][j][k]);
                }
            }
        }
    }
    e.rep.add("stale_probes_after_reuse", pc.stale_after_reuse);
    e.rep.add("stale_probes_after_2plus_reuses", pc.stale_after_2plus_reuses);
    e.rep.add("rows_compared", pc.rows_compared);
    e.rep.add("wrong_archetype_probes", pc.wrong_archetype);
    for (k, v) in pc.directs_by_source.iter() {
        e.rep.add(&format!("direct_source|{k}"), *v);
    }
    for (k, v) in pc.directs_seen_by_source.iter() {
        e.rep.add(&format!("direct_obtained|{k}"), *v);
    }
    let (made, dropped, cloned) = with_reg(|r| (r.made, r.dropped, r.cloned));
    e.rep.add("registry.tokens_made", made);
    e.rep.add("registry.tokens_cloned", cloned);
    e.rep.add("registry.drops_seen", dropped);
    let z = with_reg(|r| (r.zst_made, r.zst_dropped, r.zst_cloned));
    e.rep.add("registry.zst_made", z.0.iter().sum());
    e.rep.add("registry.zst_dropped", z.1.iter().sum());
    e.rep.add("registry.zst_cloned", z.2.iter().sum());
    let trace_sample: Vec<String> = e.rep.trace.iter().take(40).cloned().collect();
    e.rep.sample(format!("first operations: {}", trace_sample.join(" ; ")));
}
