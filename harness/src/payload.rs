//! Instrumented component types, the drop/clone registry (monitor R) and the fault
//! injector (monitor F). Everything is thread-local: gecs worlds are single-threaded, so
//! a monitor updated in the same thread right where the event happens cannot race.

use std::cell::RefCell;
use std::collections::BTreeMap;

/// Panic payload used by the fault injector, recognisable after `catch_unwind`.
#[derive(Debug, Clone, Copy, PartialEq, Eq)]
pub struct Injected(pub FaultKind);

#[derive(Debug, Clone, Copy, PartialEq, Eq)]
pub enum FaultKind {
    Closure,
    Clone,
    Drop,
}

#[derive(Debug, Clone, Copy, PartialEq, Eq)]
pub enum TokState {
    /// Owned by some world cell or by the harness between creation and hand-over.
    Live,
    Dropped,
}

#[derive(Default)]
pub struct Registry {
    next_token: u64,
    pub state: BTreeMap<u64, TokState>,
    /// live counters of the zero-sized Drop types (index = ZST type index)
    pub zst_live: [i64; 4],
    pub zst_made: [u64; 4],
    pub zst_dropped: [u64; 4],
    pub zst_cloned: [u64; 4],
    /// clone session: Some(list of (source token, new token)) while a world.clone() runs
    pub clone_log: Option<Vec<(u64, u64)>>,
    pub zst_clone_log: [u64; 4],
    /// violations seen inside Drop/Clone impls (cannot panic there); drained by the engine
    pub errors: Vec<String>,
    /// fault injector
    pub armed: Option<(FaultKind, u64)>,
    pub fired: u64,
    /// counters
    pub made: u64,
    pub dropped: u64,
    pub cloned: u64,
    /// count of Drop/Clone/closure callbacks seen since the last `reset_callback_counts`
    pub cb_clone: u64,
    pub cb_drop: u64,
    pub cb_closure: u64,
}

thread_local! {
    pub static REG: RefCell<Registry> = RefCell::new(Registry { next_token: 1, ..Default::default() });
}

pub fn with_reg<T>(f: impl FnOnce(&mut Registry) -> T) -> T {
    REG.with(|r| f(&mut r.borrow_mut()))
}

fn early_report(msg: &str) {
    // Make the event visible even if the process dies right afterwards (double free).
    println!("{{\"early_violation\":{}}}", crate::report::json_str(msg));
}

impl Registry {
    pub fn new_token(&mut self) -> u64 {
        let t = self.next_token;
        self.next_token += 1;
        self.state.insert(t, TokState::Live);
        self.made += 1;
        t
    }
    fn on_drop(&mut self, token: u64) {
        self.dropped += 1;
        match self.state.get(&token).copied() {
            Some(TokState::Live) => {
                self.state.insert(token, TokState::Dropped);
            }
            Some(TokState::Dropped) => {
                let m = format!("double drop of component token {token}");
                early_report(&m);
                self.errors.push(m);
            }
            None => {
                let m = format!("drop of a component with unknown token {token} (garbage cell)");
                early_report(&m);
                self.errors.push(m);
            }
        }
    }
    fn on_clone(&mut self, token: u64) -> u64 {
        self.cloned += 1;
        match self.state.get(&token).copied() {
            Some(TokState::Live) => {}
            Some(TokState::Dropped) => {
                let m = format!("clone of an already dropped component token {token} (read after free)");
                early_report(&m);
                self.errors.push(m);
            }
            None => {
                let m = format!("clone of a component with unknown token {token} (garbage cell)");
                early_report(&m);
                self.errors.push(m);
            }
        }
        let n = self.new_token();
        self.made -= 1; // counted as cloned, not made
        if let Some(log) = self.clone_log.as_mut() {
            log.push((token, n));
        }
        n
    }
    pub fn is_live(&self, token: u64) -> bool {
        self.state.get(&token) == Some(&TokState::Live)
    }
    pub fn live_tokens(&self) -> Vec<u64> {
        self.state.iter().filter(|(_, s)| **s == TokState::Live).map(|(t, _)| *t).collect()
    }
    pub fn live_count(&self) -> usize {
        self.state.values().filter(|s| **s == TokState::Live).count()
    }
    /// Forget dropped tokens older than `below` to bound memory on long histories.
    pub fn compact(&mut self, below: u64) {
        self.state.retain(|t, s| *s == TokState::Live || *t >= below);
    }
}

/// Called at the top of every instrumented callback; panics if the injector says so.
/// Never fires while the thread is already unwinding (a second panic would abort).
pub fn maybe_fire(kind: FaultKind) {
    let fire = with_reg(|r| {
        match kind {
            FaultKind::Clone => r.cb_clone += 1,
            FaultKind::Drop => r.cb_drop += 1,
            FaultKind::Closure => r.cb_closure += 1,
        }
        if let Some((k, n)) = r.armed {
            if k == kind {
                if n == 0 {
                    r.armed = None;
                    r.fired += 1;
                    return true;
                }
                r.armed = Some((k, n - 1));
            }
        }
        false
    });
    if fire && !std::thread::panicking() {
        std::panic::panic_any(Injected(kind));
    }
}

pub fn arm(kind: FaultKind, k: u64) {
    with_reg(|r| r.armed = Some((kind, k)));
}
pub fn disarm() -> bool {
    with_reg(|r| r.armed.take().is_some())
}

/// Uniform access to every component type of the harness.
pub trait Payload: Sized {
    const ZST: bool = false;
    /// index into the registry's ZST counters (only for zero-sized Drop types)
    const ZST_INDEX: usize = usize::MAX;
    const MASK: u64 = u64::MAX;
    const KIND: &'static str;
    fn make(token: u64, value: u64) -> Self;
    fn token(&self) -> u64;
    fn value(&self) -> u64;
    fn set_value(&mut self, v: u64);
    /// internal consistency of redundant fields (heap copies of the token etc.)
    fn coherent(&self) -> bool {
        true
    }
}

macro_rules! impl_registry_traits {
    ($T:ident) => {
        impl Drop for $T {
            fn drop(&mut self) {
                let t = Payload::token(self);
                with_reg(|r| r.on_drop(t));
                maybe_fire(FaultKind::Drop);
            }
        }
        impl Clone for $T {
            fn clone(&self) -> Self {
                maybe_fire(FaultKind::Clone);
                let t = Payload::token(self);
                let v = Payload::value(self);
                let n = with_reg(|r| r.on_clone(t));
                <$T as Payload>::make(n, v)
            }
        }
    };
}

macro_rules! plain {
    ($($T:ident),* $(,)?) => {$(
        pub struct $T { token: u64, value: u64 }
        impl Payload for $T {
            const KIND: &'static str = "plain";
            fn make(token: u64, value: u64) -> Self { Self { token, value } }
            fn token(&self) -> u64 { self.token }
            fn value(&self) -> u64 { self.value }
            fn set_value(&mut self, v: u64) { self.value = v; }
        }
        impl_registry_traits!($T);
    )*};
}

plain!(Pa, Pb, Pc, Pd, Pe, Pf, Pg, Ph, Pi, Pj, Pk, Pl, Pm, Pn, Po, Pp, Pq, Pr, Ps, Pt, Pu, Pv, Pw, Px);

/// Box-owning component.
pub struct Ha {
    token: u64,
    value: Box<u64>,
}
impl Payload for Ha {
    const KIND: &'static str = "box";
    fn make(token: u64, value: u64) -> Self {
        Self { token, value: Box::new(value) }
    }
    fn token(&self) -> u64 {
        self.token
    }
    fn value(&self) -> u64 {
        *self.value
    }
    fn set_value(&mut self, v: u64) {
        *self.value = v;
    }
}
impl_registry_traits!(Ha);

/// String-owning component; the string redundantly encodes the token.
pub struct Hb {
    token: u64,
    value: u64,
    s: String,
}
impl Payload for Hb {
    const KIND: &'static str = "string";
    fn make(token: u64, value: u64) -> Self {
        Self { token, value, s: format!("tok{token}") }
    }
    fn token(&self) -> u64 {
        self.token
    }
    fn value(&self) -> u64 {
        self.value
    }
    fn set_value(&mut self, v: u64) {
        self.value = v;
        self.s.push('.'); // may reallocate the string
        if self.s.len() > 40 {
            self.s = format!("tok{}", self.token);
        }
    }
    fn coherent(&self) -> bool {
        self.s.trim_end_matches('.') == format!("tok{}", self.token)
    }
}
impl_registry_traits!(Hb);

/// Vec-owning component (sometimes empty, i.e. not allocated).
pub struct Hc {
    token: u64,
    v: Vec<u64>,
}
impl Payload for Hc {
    const KIND: &'static str = "vec";
    fn make(token: u64, value: u64) -> Self {
        let mut v = vec![value];
        for i in 0..(token % 4) {
            v.push(token.wrapping_mul(31).wrapping_add(i));
        }
        Self { token, v }
    }
    fn token(&self) -> u64 {
        self.token
    }
    fn value(&self) -> u64 {
        self.v[0]
    }
    fn set_value(&mut self, v: u64) {
        self.v[0] = v;
    }
    fn coherent(&self) -> bool {
        self.v.len() as u64 == 1 + self.token % 4
            && (1..self.v.len()).all(|i| self.v[i] == self.token.wrapping_mul(31).wrapping_add(i as u64 - 1))
    }
}
impl_registry_traits!(Hc);

/// 9 bytes, alignment 1.
pub struct Bn {
    token: [u8; 8],
    value: u8,
}
impl Payload for Bn {
    const MASK: u64 = 0xFF;
    const KIND: &'static str = "bytes9";
    fn make(token: u64, value: u64) -> Self {
        Self { token: token.to_le_bytes(), value: value as u8 }
    }
    fn token(&self) -> u64 {
        u64::from_le_bytes(self.token)
    }
    fn value(&self) -> u64 {
        self.value as u64
    }
    fn set_value(&mut self, v: u64) {
        self.value = v as u8;
    }
}
impl_registry_traits!(Bn);

/// 10 bytes, alignment 2.
pub struct Wt {
    token: [u16; 4],
    value: u16,
}
impl Payload for Wt {
    const MASK: u64 = 0xFFFF;
    const KIND: &'static str = "words5";
    fn make(token: u64, value: u64) -> Self {
        Self {
            token: [token as u16, (token >> 16) as u16, (token >> 32) as u16, (token >> 48) as u16],
            value: value as u16,
        }
    }
    fn token(&self) -> u64 {
        self.token[0] as u64 | (self.token[1] as u64) << 16 | (self.token[2] as u64) << 32 | (self.token[3] as u64) << 48
    }
    fn value(&self) -> u64 {
        self.value as u64
    }
    fn set_value(&mut self, v: u64) {
        self.value = v as u16;
    }
}
impl_registry_traits!(Wt);

/// u128 member: alignment 16.
pub struct Qs {
    token: u64,
    value: u128,
}
impl Payload for Qs {
    const KIND: &'static str = "u128";
    fn make(token: u64, value: u64) -> Self {
        Self { token, value: (value as u128) << 64 | (!value) as u128 }
    }
    fn token(&self) -> u64 {
        self.token
    }
    fn value(&self) -> u64 {
        (self.value >> 64) as u64
    }
    fn set_value(&mut self, v: u64) {
        self.value = (v as u128) << 64 | (!v) as u128;
    }
    fn coherent(&self) -> bool {
        (self.value >> 64) as u64 == !(self.value as u64)
    }
}
impl_registry_traits!(Qs);

/// Over-aligned: alignment 64, size 64.
#[repr(align(64))]
pub struct Ls {
    token: u64,
    value: u64,
}
impl Payload for Ls {
    const KIND: &'static str = "align64";
    fn make(token: u64, value: u64) -> Self {
        Self { token, value }
    }
    fn token(&self) -> u64 {
        self.token
    }
    fn value(&self) -> u64 {
        self.value
    }
    fn set_value(&mut self, v: u64) {
        self.value = v;
    }
    fn coherent(&self) -> bool {
        (self as *const Self as usize) % 64 == 0
    }
}
impl_registry_traits!(Ls);

macro_rules! zst_drop {
    ($($T:ident = $i:expr),*) => {$(
        /// Zero-sized component with Drop: counted per type.
        pub struct $T;
        impl Payload for $T {
            const ZST: bool = true;
            const ZST_INDEX: usize = $i;
            const MASK: u64 = 0;
            const KIND: &'static str = "zst_drop";
            fn make(_token: u64, _value: u64) -> Self {
                with_reg(|r| { r.zst_live[$i] += 1; r.zst_made[$i] += 1; });
                $T
            }
            fn token(&self) -> u64 { 0 }
            fn value(&self) -> u64 { 0 }
            fn set_value(&mut self, _v: u64) {}
        }
        impl Drop for $T {
            fn drop(&mut self) {
                with_reg(|r| {
                    r.zst_live[$i] -= 1;
                    r.zst_dropped[$i] += 1;
                    if r.zst_live[$i] < 0 {
                        let m = format!("zero-sized component {} dropped more often than created", stringify!($T));
                        early_report(&m);
                        r.errors.push(m);
                    }
                });
                maybe_fire(FaultKind::Drop);
            }
        }
        impl Clone for $T {
            fn clone(&self) -> Self {
                maybe_fire(FaultKind::Clone);
                with_reg(|r| { r.zst_live[$i] += 1; r.zst_cloned[$i] += 1; r.zst_clone_log[$i] += 1; });
                $T
            }
        }
    )*};
}
zst_drop!(Za = 0, Zb = 1);

/// Zero-sized component without Drop.
#[derive(Clone)]
pub struct Zn;
impl Payload for Zn {
    const ZST: bool = true;
    const MASK: u64 = 0;
    const KIND: &'static str = "zst";
    fn make(_token: u64, _value: u64) -> Self {
        Zn
    }
    fn token(&self) -> u64 {
        0
    }
    fn value(&self) -> u64 {
        0
    }
    fn set_value(&mut self, _v: u64) {}
}

/// One cell of a row as the model sees it: (token, value). Zero-sized columns are (0, 0).
pub type Cell = (u64, u64);
pub type Row = Vec<Cell>;

#[derive(Debug, Clone, Copy)]
pub struct ColInfo {
    pub name: &'static str,
    pub kind: &'static str,
    pub zst: bool,
    pub zst_index: usize,
    pub mask: u64,
}

pub fn col_info<T: Payload>(name: &'static str) -> ColInfo {
    ColInfo { name, kind: T::KIND, zst: T::ZST, zst_index: T::ZST_INDEX, mask: T::MASK }
}

/// Builds a component for a model cell. Non-ZST cells carry a registry token made by the caller.
pub fn make_cell<T: Payload>(c: Cell) -> T {
    T::make(c.0, c.1)
}
pub fn read_cell<T: Payload>(t: &T) -> Cell {
    (t.token(), t.value())
}
