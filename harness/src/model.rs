//! The reference model (monitor M). It knows entities, their expected cells, per-archetype
//! counters and every handle ever issued -- nothing about slots, dense order or free lists.

use crate::adapter::Row;
use gecs::prelude::{EntityAny, EntityDirectAny};
use std::collections::{BTreeMap, HashMap, VecDeque};

#[derive(Clone, Debug)]
pub struct MEnt {
    pub uid: usize,
    pub arch: usize,
    pub handle: EntityAny,
    pub row: Row,
    pub alive: bool,
    pub born: usize,
    pub died: usize,
    /// u64 count of releases of this storage position at the time the handle was issued
    pub pos_releases_at_issue: u64,
}

#[derive(Clone, Debug)]
pub struct MDirect {
    pub handle: EntityDirectAny,
    pub arch: usize,
    pub uid: usize,
    pub removals: u64,
    pub creations: u64,
    pub source: &'static str,
    pub step: usize,
}

#[derive(Clone, Debug, Default)]
pub struct MArch {
    pub live: Vec<usize>,
    pub removals: u64,
    pub creations: u64,
    pub cap_seen: usize,
    pub created_ev: Vec<EntityAny>,
    pub destroyed_ev: Vec<EntityAny>,
    /// releases per storage position (u64, never wraps) -- for the wrapping_version exception
    pub pos_releases: BTreeMap<u32, u64>,
    /// removals (u64) at the moment a preset was applied, and the preset version
    pub version_base: (u64, u32),
}

#[derive(Clone, Default)]
pub struct MWorld {
    pub ents: Vec<MEnt>,
    pub archs: Vec<MArch>,
    /// raw handle bits -> uid of the latest entity issued with them
    pub issued: BTreeMap<(u32, u32), usize>,
    pub directs: Vec<MDirect>,
    pub direct_index: HashMap<EntityDirectAny, usize>,
    /// token -> (uid, column)
    pub token_owner: BTreeMap<u64, (usize, usize)>,
    pub dead_recent: VecDeque<usize>,
    pub dead_all: Vec<usize>,
    pub clone_lineage: bool,
    pub faulted: bool,
    pub id: usize,
}

impl MWorld {
    pub fn new(narchs: usize, id: usize) -> Self {
        MWorld { archs: vec![MArch::default(); narchs], id, ..Default::default() }
    }
    pub fn live_count(&self) -> usize {
        self.archs.iter().map(|a| a.live.len()).sum()
    }
    pub fn insert(&mut self, arch: usize, handle: EntityAny, row: Row, step: usize) -> usize {
        let uid = self.ents.len();
        let pos = handle.raw().0 >> 8;
        let rel = self.archs[arch].pos_releases.get(&pos).copied().unwrap_or(0);
        for (c, cell) in row.iter().enumerate() {
            if cell.0 != 0 {
                self.token_owner.insert(cell.0, (uid, c));
            }
        }
        self.ents.push(MEnt { uid, arch, handle, row, alive: true, born: step, died: 0, pos_releases_at_issue: rel });
        self.archs[arch].live.push(uid);
        self.archs[arch].creations += 1;
        self.archs[arch].created_ev.push(handle);
        self.issued.insert(handle.raw(), uid);
        uid
    }
    pub fn remove(&mut self, uid: usize, step: usize) {
        let arch = self.ents[uid].arch;
        let a = &mut self.archs[arch];
        let p = a.live.iter().position(|u| *u == uid).expect("model: uid not live");
        a.live.swap_remove(p);
        a.removals += 1;
        let h = self.ents[uid].handle;
        a.destroyed_ev.push(h);
        *a.pos_releases.entry(h.raw().0 >> 8).or_insert(0) += 1;
        let e = &mut self.ents[uid];
        e.alive = false;
        e.died = step;
        for cell in e.row.iter() {
            if cell.0 != 0 {
                self.token_owner.remove(&cell.0);
            }
        }
        self.dead_recent.push_back(uid);
        if self.dead_recent.len() > 256 {
            self.dead_recent.pop_front();
        }
        self.dead_all.push(uid);
    }
    pub fn add_direct(&mut self, d: MDirect) -> bool {
        if let Some(i) = self.direct_index.get(&d.handle) {
            let o = &self.directs[*i];
            if o.uid == d.uid && o.removals == d.removals && o.arch == d.arch {
                return false; // same handle for the same entity at the same archetype state
            }
        }
        self.direct_index.insert(d.handle, self.directs.len());
        self.directs.push(d);
        true
    }
}
