//! Panic capture: every call into gecs runs under `guard`, which classifies what unwound.

use crate::payload::{FaultKind, Injected};
use std::cell::RefCell;
use std::panic::{catch_unwind, AssertUnwindSafe};

thread_local! {
    static LAST: RefCell<Option<(String, String)>> = const { RefCell::new(None) };
    static VERBOSE: RefCell<bool> = const { RefCell::new(false) };
}

#[derive(Debug, Clone, PartialEq, Eq)]
pub enum Caught {
    /// raised by the fault injector
    Injected(FaultKind),
    /// any other panic: message and source location
    Panic { msg: String, loc: String },
}

impl Caught {
    pub fn msg(&self) -> String {
        match self {
            Caught::Injected(k) => format!("injected {:?} fault", k),
            Caught::Panic { msg, loc } => format!("{msg} @ {loc}"),
        }
    }
    pub fn is_injected(&self) -> bool {
        matches!(self, Caught::Injected(_))
    }
    pub fn contains(&self, needle: &str) -> bool {
        match self {
            Caught::Panic { msg, .. } => msg.contains(needle),
            _ => false,
        }
    }
    /// a RefCell conflict reported by std ("already borrowed" / "already mutably borrowed")
    pub fn is_borrow_conflict(&self) -> bool {
        match self {
            Caught::Panic { msg, .. } => msg.contains("already borrowed") || msg.contains("already mutably borrowed"),
            _ => false,
        }
    }
}

pub fn install_hook(verbose: bool) {
    VERBOSE.with(|v| *v.borrow_mut() = verbose);
    std::panic::set_hook(Box::new(|info| {
        let msg = if let Some(s) = info.payload().downcast_ref::<&str>() {
            s.to_string()
        } else if let Some(s) = info.payload().downcast_ref::<String>() {
            s.clone()
        } else if info.payload().downcast_ref::<Injected>().is_some() {
            "<injected>".to_string()
        } else {
            "<non-string panic payload>".to_string()
        };
        let loc = info.location().map(|l| format!("{}:{}", l.file(), l.line())).unwrap_or_default();
        if VERBOSE.with(|v| *v.borrow()) {
            eprintln!("[panic] {msg} @ {loc}");
        }
        LAST.with(|l| *l.borrow_mut() = Some((msg, loc)));
    }));
}

pub fn guard<T>(f: impl FnOnce() -> T) -> Result<T, Caught> {
    LAST.with(|l| *l.borrow_mut() = None);
    match catch_unwind(AssertUnwindSafe(f)) {
        Ok(v) => Ok(v),
        Err(p) => {
            if let Some(i) = p.downcast_ref::<Injected>() {
                return Err(Caught::Injected(i.0));
            }
            let (msg, loc) = LAST.with(|l| l.borrow_mut().take()).unwrap_or_else(|| ("<unknown>".into(), String::new()));
            Err(Caught::Panic { msg, loc })
        }
    }
}
