//! Exhaustive ecs_iter_destroy! enumeration (C07): every decision function (4^n) for every
//! population (n1, n2) with n1 + n2 <= nmax on the two-archetype world, from three prior
//! histories. Each loop runs on a fresh clone of the prepared world.

use crate::adapter::*;
use crate::engine::*;
use crate::history::flush_counts;
use crate::probe::ProbeCounts;
use crate::worlds::WorldOps;
use std::collections::BTreeMap;

pub fn run_iterdestroy_exhaustive<W: WorldOps>(seed: u64, shard: u64, nshards: u64, nmax: usize, small: bool) -> crate::report::Report {
    let mut prof = Profile::base("iterdestroy-exhaustive");
    prof.max_worlds = 2;
    if small {
        prof.api_subset = 3;
    }
    let mut e: Engine<W> = Engine::new(seed, shard, prof);
    let mut pc = ProbeCounts::default();
    let steps = [Step::Continue, Step::ContinueDestroy, Step::Break, Step::BreakDestroy];
    let mut counter = 0u64;
    {
        // the step enums themselves: which values destroy, and how a plain EcsStep is read
        use gecs::prelude::{EcsStep, EcsStepDestroy};
        let table = [
            (EcsStepDestroy::Continue, false),
            (EcsStepDestroy::Break, false),
            (EcsStepDestroy::ContinueDestroy, true),
            (EcsStepDestroy::BreakDestroy, true),
        ];
        for (s, d) in table {
            if s.is_destroy() != d {
                e.rep.violate(&["C07"], "iter-destroy", format!("EcsStepDestroy::is_destroy() is {} for a step that {}", !d, if d { "destroys" } else { "does not destroy" }));
            }
        }
        if !matches!(EcsStepDestroy::from(EcsStep::Continue), EcsStepDestroy::Continue) || !matches!(EcsStepDestroy::from(EcsStep::Break), EcsStepDestroy::Break) {
            e.rep.violate(&["C07"], "iter-destroy", "From<EcsStep> for EcsStepDestroy does not map Continue to Continue and Break to Break".into());
        }
        if !matches!(EcsStepDestroy::from(()), EcsStepDestroy::Continue) || !matches!(EcsStep::from(()), EcsStep::Continue) {
            e.rep.violate(&["C07", "C06"], "iter-destroy", "From<()> for the step enums is not Continue".into());
        }
    }
    for shape in 0..3 {
        for n1 in 0..=nmax {
            for n2 in 0..=(nmax - n1) {
                if e.rep.failed() {
                    return e.rep;
                }
                let n = [n1, n2];
                // ---- prepare the template world ----
                let caps: Vec<usize> = match shape {
                    0 => vec![n1, n2],
                    _ => vec![0, 0],
                };
                let wi = e.new_world_with(&caps, 0);
                let mut order: Vec<usize> = Vec::new(); // uids in creation order
                for ai in 0..2 {
                    let extra = if shape == 1 { 3 } else { 0 };
                    let mut made = Vec::new();
                    for _ in 0..n[ai] + extra {
                        let path = e.rng.below(2);
                        made.push(e.op_create(wi, ai, path).expect("create"));
                    }
                    if shape == 1 {
                        // churn: remove first, middle and last, so that the free list and the
                        // dense order no longer mirror the creation order
                        for k in [0, made.len() / 2, made.len() - 1] {
                            let uid = made[k];
                            let (level, kind) = (e.rng.below(2), e.rng.below(4));
                            e.op_destroy(wi, uid, level, kind);
                        }
                        let dead = [made[0], made[made.len() / 2], made[made.len() - 1]];
                        made.retain(|u| !dead.contains(u));
                    }
                    order.extend(made);
                }
                let total = n1 + n2;
                let nfun = 4u64.pow(total as u32);
                for f in 0..nfun {
                    counter += 1;
                    if counter % nshards != shard {
                        continue;
                    }
                    e.rep.step += 1;
                    let Some(w2) = e.op_clone(wi) else { return e.rep };
                    // the clone's entities have the same handles; decisions by creation order
                    let mut decisions: BTreeMap<(u32, u32), Step> = BTreeMap::new();
                    let mut x = f;
                    for uid in order.iter() {
                        decisions.insert(e.sl(w2).m.ents[*uid].handle.raw(), steps[(x % 4) as usize]);
                        x /= 4;
                    }
                    let q = (f as usize + shape) % e.queries.len();
                    // queries 0 and 1 of the small world match both archetypes; 2 as well (OneOf)
                    e.op_iter_destroy_with(w2, None, q, decisions, &mut pc);
                    e.rep.count("exhaustive.loops");
                    e.rep.seen("exhaustive_cases", (shape as u64) << 40 | (n1 as u64) << 36 | (n2 as u64) << 32 | f);
                    if !e.rep.failed() {
                        for ai in 0..2 {
                            e.check_invariants(w2, ai);
                        }
                        e.probe(w2, true, &[], &mut pc);
                        if f % 8 == 0 {
                            e.check_iteration(w2, &mut pc);
                        }
                    }
                    e.drain_registry_errors(Some(w2));
                    if e.rep.failed() {
                        return e.rep;
                    }
                    e.op_drop_world(w2);
                }
                e.op_drop_world(wi);
                e.drain_registry_errors(None);
            }
        }
    }
    e.sweep_registry();
    flush_counts(&mut e, &pc);
    e.rep
}
