//! Uniform, object-safe access to the statically typed gecs API. One adapter per archetype
//! is stamped out by `arch_adapter!`; every method body goes through the real public API
//! (trait methods and the five query macros) with the concrete types of that archetype.

use gecs::prelude::*;

pub use crate::payload::{Cell, ColInfo, Row};

/// A handle in any of the four key kinds. The bool asks for an *unchecked* typed conversion
/// (`from_any_unchecked`), used only by the forged-handle workload.
#[derive(Clone, Copy, Debug)]
pub enum Key {
    Typed(EntityAny, bool),
    Any(EntityAny),
    Direct(EntityDirectAny, bool),
    DirectAny(EntityDirectAny),
}

impl Key {
    pub fn kind(&self) -> usize {
        match self {
            Key::Typed(..) => 0,
            Key::Any(..) => 1,
            Key::Direct(..) => 2,
            Key::DirectAny(..) => 3,
        }
    }
    pub fn is_direct(&self) -> bool {
        self.kind() >= 2
    }
    pub fn slot(kind: usize, e: EntityAny) -> Key {
        if kind == 0 {
            Key::Typed(e, false)
        } else {
            Key::Any(e)
        }
    }
    pub fn direct(kind: usize, d: EntityDirectAny) -> Key {
        if kind == 2 {
            Key::Direct(d, false)
        } else {
            Key::DirectAny(d)
        }
    }
}
pub const KEY_KINDS: [&str; 4] = ["Entity<A>", "EntityAny", "EntityDirect<A>", "EntityDirectAny"];

pub fn typed<A: Archetype>(e: EntityAny, unchecked: bool) -> Option<Entity<A>> {
    if unchecked {
        Some(Entity::<A>::from_any_unchecked(e))
    } else {
        Entity::<A>::try_from(e).ok()
    }
}
pub fn typed_direct<A: Archetype>(d: EntityDirectAny, unchecked: bool) -> Option<EntityDirect<A>> {
    if unchecked {
        Some(EntityDirect::<A>::from_any_unchecked(d))
    } else {
        EntityDirect::<A>::try_from(d).ok()
    }
}

/// What an accepting lookup reported.
#[derive(Clone, Debug, Default)]
pub struct Found {
    pub entity: Option<EntityAny>,
    pub row: Option<Row>,
    pub index: Option<usize>,
    pub direct: Option<EntityDirectAny>,
    /// `MatchedArchetype::ARCHETYPE_ID` seen inside a query closure
    pub matched_id: Option<u8>,
    /// redundant-field coherence of every component read
    pub coherent: bool,
}

// ---- lookup APIs -------------------------------------------------------------------------
pub const LK_W_CONTAINS: usize = 0;
pub const LK_A_CONTAINS: usize = 1;
pub const LK_W_TO_DIRECT: usize = 2;
pub const LK_A_TO_DIRECT: usize = 3;
pub const LK_A_RESOLVE: usize = 4;
pub const LK_A_VIEW: usize = 5;
pub const LK_A_BORROW: usize = 6;
pub const LK_W_VIEW: usize = 7;
pub const LK_W_BORROW: usize = 8;
pub const LK_FIND: usize = 9;
pub const LK_FIND_BORROW: usize = 10;
pub const LK_FIND_WILD: usize = 11;
pub const LK_FIND_BORROW_WILD: usize = 12;
pub const LK_RESOLVE_SLICES: usize = 13;
pub const LK_RESOLVE_BORROW_SLICES: usize = 14;
pub const N_LOOKUPS: usize = 15;
pub const LOOKUP_NAMES: [&str; N_LOOKUPS] = [
    "World::contains",
    "Archetype::contains",
    "World::to_direct",
    "Archetype::to_direct",
    "Archetype::resolve",
    "Archetype::view",
    "Archetype::borrow",
    "World::view",
    "World::borrow",
    "ecs_find!(typed params)",
    "ecs_find_borrow!(typed params)",
    "ecs_find!(wild params)",
    "ecs_find_borrow!(wild params)",
    "resolve+get_slice",
    "resolve+borrow_slice",
];
/// lookups that return the row (and so double as read paths)
pub const LOOKUP_READS_ROW: [bool; N_LOOKUPS] =
    [false, false, false, false, false, true, true, true, true, true, true, true, true, true, true];

// ---- write APIs --------------------------------------------------------------------------
pub const WR_A_VIEW_FIELD: usize = 0;
pub const WR_A_VIEW_COMPONENT: usize = 1;
pub const WR_W_VIEW: usize = 2;
pub const WR_A_BORROW: usize = 3;
pub const WR_W_BORROW: usize = 4;
pub const WR_FIND: usize = 5;
pub const WR_FIND_BORROW: usize = 6;
pub const WR_SLICE_MUT: usize = 7;
pub const WR_BORROW_SLICE_MUT: usize = 8;
pub const WR_ALL_SLICES: usize = 9;
pub const WR_ITER_MUT: usize = 10;
pub const WR_ECS_ITER: usize = 11;
pub const WR_ECS_ITER_BORROW: usize = 12;
pub const WR_ECS_ITER_DESTROY: usize = 13;
pub const N_WRITES: usize = 14;
pub const WRITE_NAMES: [&str; N_WRITES] = [
    "view.field",
    "view.component_mut",
    "World::view.component_mut",
    "borrow.component_mut",
    "World::borrow.component_mut",
    "ecs_find!(&mut)",
    "ecs_find_borrow!(&mut)",
    "resolve+get_slice_mut",
    "resolve+borrow_slice_mut",
    "resolve+get_all_slices_mut",
    "iter_mut",
    "ecs_iter!(&mut)",
    "ecs_iter_borrow!(&mut)",
    "ecs_iter_destroy!(&mut, Continue)",
];
/// write paths that locate the entity by scanning for its handle (slot keys only)
pub const WRITE_SCANS: [bool; N_WRITES] =
    [false, false, false, false, false, false, false, false, false, false, true, true, true, true];

// ---- iteration APIs (one archetype) ------------------------------------------------------
pub const IT_ITER: usize = 0;
pub const IT_ITER_MUT: usize = 1;
pub const IT_GET_SLICES: usize = 2;
pub const IT_BORROW_SLICES: usize = 3;
pub const IT_ALL_SLICES: usize = 4;
pub const IT_ECS_ITER: usize = 5;
pub const IT_ECS_ITER_BORROW: usize = 6;
pub const IT_ECS_ITER_DESTROY: usize = 7;
pub const N_ITERS: usize = 8;
pub const ITER_NAMES: [&str; N_ITERS] = [
    "Archetype::iter",
    "Archetype::iter_mut",
    "entities+get_slice",
    "entities+borrow_slice",
    "get_all_slices_mut",
    "ecs_iter!(Entity<A>)",
    "ecs_iter_borrow!(Entity<A>)",
    "ecs_iter_destroy!(Entity<A>, Continue)",
];

// ---- create / destroy paths --------------------------------------------------------------
pub const CR_W_CREATE: usize = 0;
pub const CR_A_CREATE: usize = 1;
pub const CR_W_WITHIN: usize = 2;
pub const CR_A_WITHIN: usize = 3;
pub const CR_W_CREATE_COMPONENTS: usize = 4; // through the named Components struct
pub const N_CREATES: usize = 5;
pub const CREATE_NAMES: [&str; N_CREATES] = [
    "World::create",
    "Archetype::create",
    "World::create_within_capacity",
    "Archetype::create_within_capacity",
    "World::create(Components struct)",
];

pub const DS_WORLD: usize = 0;
pub const DS_ARCH: usize = 1;
pub const DESTROY_NAMES: [&str; 2] = ["World::destroy", "Archetype::destroy"];

pub enum CreateOut {
    Created(EntityAny),
    /// create_within_capacity refused and handed the components back
    Full(Row),
}

#[derive(Debug)]
pub enum DestroyOut {
    Absent,
    /// destroyed; the row is present when the API returns the components
    Destroyed(Option<Row>),
}

#[derive(Clone, Debug)]
pub struct Visit {
    pub arch_id: u8,
    pub entity: EntityAny,
    pub direct: Option<EntityDirectAny>,
    /// cells of the columns the query names, in query order
    pub cells: Row,
    pub coherent: bool,
}

#[derive(Clone, Copy, Debug, PartialEq, Eq, PartialOrd, Ord)]
pub enum Step {
    Continue,
    Break,
    ContinueDestroy,
    BreakDestroy,
}
impl Step {
    pub fn to_destroy(self) -> EcsStepDestroy {
        match self {
            Step::Continue => EcsStepDestroy::Continue,
            Step::Break => EcsStepDestroy::Break,
            Step::ContinueDestroy => EcsStepDestroy::ContinueDestroy,
            Step::BreakDestroy => EcsStepDestroy::BreakDestroy,
        }
    }
    pub fn to_step(self) -> EcsStep {
        match self {
            Step::Break | Step::BreakDestroy => EcsStep::Break,
            _ => EcsStep::Continue,
        }
    }
    pub fn destroys(self) -> bool {
        matches!(self, Step::ContinueDestroy | Step::BreakDestroy)
    }
    pub fn breaks(self) -> bool {
        matches!(self, Step::Break | Step::BreakDestroy)
    }
}

/// Raw bookkeeping dump (hook H1), re-exported so the engine does not name gecs internals.
pub use gecs::__internal::VerifDump;

pub trait Arch<W> {
    fn id(&self) -> u8;
    fn name(&self) -> &'static str;
    fn cols(&self) -> Vec<ColInfo>;
    fn len(&self, w: &W) -> usize;
    fn is_empty(&self, w: &W) -> bool;
    fn capacity(&self, w: &W) -> usize;
    fn entities(&self, w: &W) -> Vec<EntityAny>;
    /// Returns the outcome and the number of allocator calls made inside the gecs call.
    fn create(&self, w: &mut W, path: usize, row: &Row) -> (CreateOut, u64);
    fn destroy(&self, w: &mut W, level: usize, key: Key) -> DestroyOut;
    fn lookup(&self, w: &mut W, api: usize, key: Key) -> Option<Found>;
    /// Sets `vals[i]` (when Some) on column i of the entity. Returns whether it was found.
    fn write(&self, w: &mut W, api: usize, key: Key, vals: &[Option<u64>]) -> bool;
    fn iter_pass(&self, w: &mut W, api: usize) -> Vec<Visit>;
    /// `ecs_iter_destroy!` restricted to this archetype via an `&Entity<A>` parameter.
    fn iter_destroy(&self, w: &mut W, decide: &mut dyn FnMut(&Visit) -> Step) -> usize;
    fn dump(&self, w: &W) -> VerifDump;
    fn preset_versions(&self, w: &mut W, slots: &[(usize, u32)], arch_version: u32);
    fn events(&self, w: &W) -> Option<(Vec<EntityAny>, Vec<EntityAny>)>;
    fn clear_events(&self, w: &mut W);
    /// Takes a runtime borrow of every column (shared, or mutable if `mutable`) and leaks the
    /// guards with `mem::forget` (safe code): the columns stay flagged as borrowed for ever.
    fn leak_guards(&self, w: &W, mutable: bool);
}

#[macro_export]
macro_rules! with_key {
    ($A:ident, $key:expr, $k:ident => $body:expr, else $absent:expr) => {
        match $key {
            $crate::adapter::Key::Typed(e, u) => match $crate::adapter::typed::<$A>(e, u) {
                Some($k) => $body,
                None => $absent,
            },
            $crate::adapter::Key::Any($k) => $body,
            $crate::adapter::Key::Direct(d, u) => match $crate::adapter::typed_direct::<$A>(d, u) {
                Some($k) => $body,
                None => $absent,
            },
            $crate::adapter::Key::DirectAny($k) => $body,
        }
    };
}

#[macro_export]
macro_rules! arch_adapter {
    (
        world = $W:ident,
        adapter = $Ad:ident,
        arch = $A:ident,
        field = $f:ident,
        comps = $AC:ident,
        cols = [ $( ($C:ident, $c:ident) ),* $(,)? ]
    ) => {
        pub struct $Ad;

        impl $Ad {
            #[allow(unused_assignments, unused_mut, unused_variables)]
            fn components(row: &$crate::adapter::Row) -> ( $( $C, )* ) {
                let mut i = 0usize;
                ( $( { let cell = row[i]; i += 1; $crate::payload::make_cell::<$C>(cell) }, )* )
            }
            fn row_of(t: ( $( $C, )* )) -> $crate::adapter::Row {
                let ( $( $c, )* ) = t;
                let row = vec![ $( $crate::payload::read_cell(&$c) ),* ];
                // dropping the tuple here hands the values back to the registry as dropped
                $( drop($c); )*
                row
            }
            #[allow(unused_assignments, unused_mut, unused_variables)]
            fn apply(vals: &[Option<u64>], $( $c: &mut $C ),* ) {
                let mut i = 0usize;
                $( if let Some(v) = vals[i] { $crate::payload::Payload::set_value($c, v); } i += 1; )*
            }
        }

        #[allow(unused_variables, unused_mut, clippy::all)]
        impl $crate::adapter::Arch<$W> for $Ad {
            fn id(&self) -> u8 { <$A as Archetype>::ARCHETYPE_ID }
            fn name(&self) -> &'static str { stringify!($A) }
            fn cols(&self) -> Vec<$crate::adapter::ColInfo> {
                vec![ $( $crate::payload::col_info::<$C>(stringify!($C)) ),* ]
            }
            fn len(&self, w: &$W) -> usize { w.$f.len() }
            fn is_empty(&self, w: &$W) -> bool { w.archetype::<$A>().is_empty() }
            fn capacity(&self, w: &$W) -> usize { w.$f.capacity() }
            fn entities(&self, w: &$W) -> Vec<EntityAny> {
                w.$f.entities().iter().map(|e| e.into_any()).collect()
            }

            fn create(&self, w: &mut $W, path: usize, row: &$crate::adapter::Row) -> ($crate::adapter::CreateOut, u64) {
                use $crate::adapter::*;
                let comps = Self::components(row);
                // allocator calls are counted around the gecs call only
                let c0 = valloc::counts();
                let delta = move || { let c1 = valloc::counts(); (c1.allocs - c0.allocs) + (c1.reallocs - c0.reallocs) };
                match path {
                    CR_W_CREATE => { let e = w.create::<$A>(comps); let d = delta(); (CreateOut::Created(e.into_any()), d) }
                    CR_A_CREATE => { let e = w.archetype_mut::<$A>().create(comps); let d = delta(); (CreateOut::Created(e.into()), d) }
                    CR_W_WITHIN => match w.create_within_capacity::<$A>(comps) {
                        Ok(e) => { let d = delta(); (CreateOut::Created(e.into_any()), d) }
                        Err(back) => { let d = delta(); (CreateOut::Full(Self::row_of(back.into_tuple())), d) }
                    },
                    CR_A_WITHIN => match w.$f.create_within_capacity(comps) {
                        Ok(e) => { let d = delta(); (CreateOut::Created(e.into_any()), d) }
                        Err(back) => { let d = delta(); (CreateOut::Full(Self::row_of(back.into())), d) }
                    },
                    CR_W_CREATE_COMPONENTS => {
                        let ( $( $c, )* ) = comps;
                        let e = w.create::<$A>($AC { $( $c, )* });
                        let d = delta();
                        (CreateOut::Created(e.into_any()), d)
                    }
                    _ => unreachable!(),
                }
            }

            fn destroy(&self, w: &mut $W, level: usize, key: $crate::adapter::Key) -> $crate::adapter::DestroyOut {
                use $crate::adapter::*;
                match (level, key) {
                    (DS_WORLD, Key::Typed(e, u)) => match typed::<$A>(e, u) {
                        Some(k) => match w.destroy(k) {
                            Some(c) => DestroyOut::Destroyed(Some(Self::row_of(c.into_tuple()))),
                            None => DestroyOut::Absent,
                        },
                        None => DestroyOut::Absent,
                    },
                    (DS_WORLD, Key::Direct(d, u)) => match typed_direct::<$A>(d, u) {
                        Some(k) => match w.destroy(k) {
                            Some(c) => DestroyOut::Destroyed(Some(Self::row_of(c.into()))),
                            None => DestroyOut::Absent,
                        },
                        None => DestroyOut::Absent,
                    },
                    (DS_WORLD, Key::Any(k)) => match w.destroy(k) {
                        Some(()) => DestroyOut::Destroyed(None),
                        None => DestroyOut::Absent,
                    },
                    (DS_WORLD, Key::DirectAny(k)) => match w.destroy(k) {
                        Some(()) => DestroyOut::Destroyed(None),
                        None => DestroyOut::Absent,
                    },
                    (_, key) => $crate::with_key!($A, key, k => match w.$f.destroy(k) {
                        Some(c) => DestroyOut::Destroyed(Some(Self::row_of(c.into_tuple()))),
                        None => DestroyOut::Absent,
                    }, else DestroyOut::Absent),
                }
            }

            fn lookup(&self, w: &mut $W, api: usize, key: $crate::adapter::Key) -> Option<$crate::adapter::Found> {
                use $crate::adapter::*;
                use $crate::payload::{read_cell, Payload};
                match api {
                    LK_W_CONTAINS => $crate::with_key!($A, key, k => {
                        if w.contains(k) { Some(Found::default()) } else { None }
                    }, else None),
                    LK_A_CONTAINS => $crate::with_key!($A, key, k => {
                        if w.$f.contains(k) { Some(Found::default()) } else { None }
                    }, else None),
                    LK_W_TO_DIRECT => $crate::with_key!($A, key, k => {
                        w.to_direct(k).map(|d| Found { direct: Some(d.into_any()), ..Default::default() })
                    }, else None),
                    LK_A_TO_DIRECT => $crate::with_key!($A, key, k => {
                        w.archetype::<$A>().to_direct(k).map(|d| Found { direct: Some(d.into_any()), ..Default::default() })
                    }, else None),
                    LK_A_RESOLVE => $crate::with_key!($A, key, k => {
                        w.$f.resolve(k).map(|i| Found { index: Some(i), ..Default::default() })
                    }, else None),
                    LK_A_VIEW => $crate::with_key!($A, key, k => {
                        w.$f.view(k).map(|v| Found {
                            entity: Some(v.entity.into_any()),
                            index: Some(v.index()),
                            coherent: true $( && v.component::<$C>().coherent() )*,
                            row: Some(vec![ $( read_cell(&*v.$c) ),* ]),
                            ..Default::default()
                        })
                    }, else None),
                    LK_A_BORROW => $crate::with_key!($A, key, k => {
                        w.$f.borrow(k).map(|b| Found {
                            entity: Some(b.entity().into_any()),
                            index: Some(b.index()),
                            coherent: true $( && b.component::<$C>().coherent() )*,
                            row: Some(vec![ $( read_cell(&*b.component::<$C>()) ),* ]),
                            ..Default::default()
                        })
                    }, else None),
                    LK_W_VIEW => {
                        // typed keys only; dynamic keys are converted the way a user would
                        let make = |v: <$A as Archetype>::View<'_>| Found {
                            entity: Some(v.entity.into_any()),
                            index: Some(v.index()),
                            coherent: true $( && v.$c.coherent() )*,
                            row: Some(vec![ $( read_cell(v.component::<$C>()) ),* ]),
                            ..Default::default()
                        };
                        match key {
                            Key::Typed(e, u) => typed::<$A>(e, u).and_then(|k| w.view(k).map(make)),
                            Key::Any(e) => typed::<$A>(e, false).and_then(|k| w.view(k).map(make)),
                            Key::Direct(d, u) => typed_direct::<$A>(d, u).and_then(|k| w.view(k).map(make)),
                            Key::DirectAny(d) => typed_direct::<$A>(d, false).and_then(|k| w.view(k).map(make)),
                        }
                    }
                    LK_W_BORROW => {
                        let make = |b: <$A as Archetype>::Borrow<'_>| Found {
                            entity: Some(b.entity().into_any()),
                            index: Some(b.index()),
                            coherent: true $( && b.component::<$C>().coherent() )*,
                            row: Some(vec![ $( read_cell(&*b.component::<$C>()) ),* ]),
                            ..Default::default()
                        };
                        match key {
                            Key::Typed(e, u) => typed::<$A>(e, u).and_then(|k| w.borrow(k).map(make)),
                            Key::Any(e) => typed::<$A>(e, false).and_then(|k| w.borrow(k).map(make)),
                            Key::Direct(d, u) => typed_direct::<$A>(d, u).and_then(|k| w.borrow(k).map(make)),
                            Key::DirectAny(d) => typed_direct::<$A>(d, false).and_then(|k| w.borrow(k).map(make)),
                        }
                    }
                    LK_FIND => $crate::with_key!($A, key, k => {
                        ecs_find!(w, k, |e: &Entity<$A>, d: &EntityDirect<$A>, $( $c: &$C ),*| {
                            $crate::payload::maybe_fire($crate::payload::FaultKind::Closure);
                            Found {
                                entity: Some(e.into_any()),
                                direct: Some(d.into_any()),
                                matched_id: Some(<MatchedArchetype as Archetype>::ARCHETYPE_ID),
                                coherent: true $( && $c.coherent() )*,
                                row: Some(vec![ $( read_cell($c) ),* ]),
                                ..Default::default()
                            }
                        })
                    }, else None),
                    LK_FIND_BORROW => $crate::with_key!($A, key, k => {
                        ecs_find_borrow!(w, k, |e: &Entity<$A>, d: &EntityDirect<$A>, $( $c: &$C ),*| {
                            $crate::payload::maybe_fire($crate::payload::FaultKind::Closure);
                            Found {
                                entity: Some(e.into_any()),
                                direct: Some(d.into_any()),
                                matched_id: Some(<MatchedArchetype as Archetype>::ARCHETYPE_ID),
                                coherent: true $( && $c.coherent() )*,
                                row: Some(vec![ $( read_cell($c) ),* ]),
                                ..Default::default()
                            }
                        })
                    }, else None),
                    LK_FIND_WILD => $crate::with_key!($A, key, k => {
                        ecs_find!(w, k, |e: &EntityAny, d: &EntityDirectAny, _t: &Entity<_>, _u: &EntityDirect<_>, $( $c: &$C ),*| {
                            $crate::payload::maybe_fire($crate::payload::FaultKind::Closure);
                            Found {
                                entity: Some(*e),
                                direct: Some(*d),
                                matched_id: Some(<MatchedArchetype as Archetype>::ARCHETYPE_ID),
                                coherent: (_t.into_any() == *e) && (_u.into_any() == *d) $( && $c.coherent() )*,
                                row: Some(vec![ $( read_cell($c) ),* ]),
                                ..Default::default()
                            }
                        })
                    }, else None),
                    LK_FIND_BORROW_WILD => $crate::with_key!($A, key, k => {
                        ecs_find_borrow!(w, k, |e: &EntityAny, d: &EntityDirectAny, _t: &Entity<_>, _u: &EntityDirect<_>, $( $c: &$C ),*| {
                            $crate::payload::maybe_fire($crate::payload::FaultKind::Closure);
                            Found {
                                entity: Some(*e),
                                direct: Some(*d),
                                matched_id: Some(<MatchedArchetype as Archetype>::ARCHETYPE_ID),
                                coherent: (_t.into_any() == *e) && (_u.into_any() == *d) $( && $c.coherent() )*,
                                row: Some(vec![ $( read_cell($c) ),* ]),
                                ..Default::default()
                            }
                        })
                    }, else None),
                    LK_RESOLVE_SLICES => $crate::with_key!($A, key, k => {
                        match w.$f.resolve(k) {
                            Some(i) => {
                                let entity = w.$f.entities()[i].into_any();
                                let mut coherent = true;
                                let row = vec![ $( { let s = w.$f.get_slice::<$C>(); coherent &= s[i].coherent(); read_cell(&s[i]) } ),* ];
                                Some(Found { entity: Some(entity), index: Some(i), row: Some(row), coherent, ..Default::default() })
                            }
                            None => None,
                        }
                    }, else None),
                    LK_RESOLVE_BORROW_SLICES => $crate::with_key!($A, key, k => {
                        match w.archetype::<$A>().resolve(k) {
                            Some(i) => {
                                let a = w.archetype::<$A>();
                                let entity = a.entities()[i].into_any();
                                let mut coherent = true;
                                let row = vec![ $( { let s = a.borrow_slice::<$C>(); coherent &= s[i].coherent(); read_cell(&s[i]) } ),* ];
                                Some(Found { entity: Some(entity), index: Some(i), row: Some(row), coherent, ..Default::default() })
                            }
                            None => None,
                        }
                    }, else None),
                    _ => unreachable!(),
                }
            }

            fn write(&self, w: &mut $W, api: usize, key: $crate::adapter::Key, vals: &[Option<u64>]) -> bool {
                use $crate::adapter::*;
                let target: Option<EntityAny> = match key { Key::Typed(e, _) | Key::Any(e) => Some(e), _ => None };
                match api {
                    WR_A_VIEW_FIELD => $crate::with_key!($A, key, k => {
                        match w.$f.view(k) { Some(v) => { Self::apply(vals, $( &mut *v.$c ),* ); true } None => false }
                    }, else false),
                    WR_A_VIEW_COMPONENT => $crate::with_key!($A, key, k => {
                        match w.archetype_mut::<$A>().view(k) {
                            Some(mut v) => {
                                let mut i = 0usize;
                                $( if let Some(x) = vals[i] { $crate::payload::Payload::set_value(v.component_mut::<$C>(), x); } i += 1; )*
                                true
                            }
                            None => false,
                        }
                    }, else false),
                    WR_W_VIEW => {
                        let mut f = |mut v: <$A as Archetype>::View<'_>| {
                            let mut i = 0usize;
                            $( if let Some(x) = vals[i] { $crate::payload::Payload::set_value(v.component_mut::<$C>(), x); } i += 1; )*
                            true
                        };
                        match key {
                            Key::Typed(e, u) => typed::<$A>(e, u).and_then(|k| w.view(k).map(&mut f)).unwrap_or(false),
                            Key::Any(e) => typed::<$A>(e, false).and_then(|k| w.view(k).map(&mut f)).unwrap_or(false),
                            Key::Direct(d, u) => typed_direct::<$A>(d, u).and_then(|k| w.view(k).map(&mut f)).unwrap_or(false),
                            Key::DirectAny(d) => typed_direct::<$A>(d, false).and_then(|k| w.view(k).map(&mut f)).unwrap_or(false),
                        }
                    }
                    WR_A_BORROW => $crate::with_key!($A, key, k => {
                        match w.$f.borrow(k) {
                            Some(b) => {
                                let mut i = 0usize;
                                $( if let Some(x) = vals[i] { $crate::payload::Payload::set_value(&mut *b.component_mut::<$C>(), x); } i += 1; )*
                                true
                            }
                            None => false,
                        }
                    }, else false),
                    WR_W_BORROW => {
                        let mut f = |b: <$A as Archetype>::Borrow<'_>| {
                            let mut i = 0usize;
                            $( if let Some(x) = vals[i] { $crate::payload::Payload::set_value(&mut *b.component_mut::<$C>(), x); } i += 1; )*
                            true
                        };
                        match key {
                            Key::Typed(e, u) => typed::<$A>(e, u).and_then(|k| w.borrow(k).map(&mut f)).unwrap_or(false),
                            Key::Any(e) => typed::<$A>(e, false).and_then(|k| w.borrow(k).map(&mut f)).unwrap_or(false),
                            Key::Direct(d, u) => typed_direct::<$A>(d, u).and_then(|k| w.borrow(k).map(&mut f)).unwrap_or(false),
                            Key::DirectAny(d) => typed_direct::<$A>(d, false).and_then(|k| w.borrow(k).map(&mut f)).unwrap_or(false),
                        }
                    }
                    WR_FIND => $crate::with_key!($A, key, k => {
                        ecs_find!(w, k, |_e: &Entity<_>, $( $c: &mut $C ),*| {
                            $crate::payload::maybe_fire($crate::payload::FaultKind::Closure);
                            Self::apply(vals, $( $c ),* );
                        }).is_some()
                    }, else false),
                    WR_FIND_BORROW => $crate::with_key!($A, key, k => {
                        ecs_find_borrow!(w, k, |_e: &Entity<_>, $( $c: &mut $C ),*| {
                            $crate::payload::maybe_fire($crate::payload::FaultKind::Closure);
                            Self::apply(vals, $( $c ),* );
                        }).is_some()
                    }, else false),
                    WR_SLICE_MUT => $crate::with_key!($A, key, k => {
                        match w.$f.resolve(k) {
                            Some(idx) => {
                                let mut i = 0usize;
                                $( if let Some(x) = vals[i] { $crate::payload::Payload::set_value(&mut w.$f.get_slice_mut::<$C>()[idx], x); } i += 1; )*
                                true
                            }
                            None => false,
                        }
                    }, else false),
                    WR_BORROW_SLICE_MUT => $crate::with_key!($A, key, k => {
                        let a = w.archetype::<$A>();
                        match a.resolve(k) {
                            Some(idx) => {
                                let mut i = 0usize;
                                $( if let Some(x) = vals[i] { $crate::payload::Payload::set_value(&mut a.borrow_slice_mut::<$C>()[idx], x); } i += 1; )*
                                true
                            }
                            None => false,
                        }
                    }, else false),
                    WR_ALL_SLICES => $crate::with_key!($A, key, k => {
                        match w.$f.resolve(k) {
                            Some(idx) => {
                                let s = w.$f.get_all_slices_mut();
                                Self::apply(vals, $( &mut s.$c[idx] ),* );
                                true
                            }
                            None => false,
                        }
                    }, else false),
                    WR_ITER_MUT => {
                        let target = target.expect("scan write needs a slot key");
                        let mut hit = false;
                        for (e, $( $c ),*) in w.$f.iter_mut() {
                            if e.into_any() == target { Self::apply(vals, $( $c ),* ); hit = true; }
                        }
                        hit
                    }
                    WR_ECS_ITER => {
                        let target = target.expect("scan write needs a slot key");
                        let mut hit = false;
                        ecs_iter!(w, |e: &Entity<$A>, $( $c: &mut $C ),*| {
                            $crate::payload::maybe_fire($crate::payload::FaultKind::Closure);
                            if e.into_any() == target { Self::apply(vals, $( $c ),* ); hit = true; }
                        });
                        hit
                    }
                    WR_ECS_ITER_BORROW => {
                        let target = target.expect("scan write needs a slot key");
                        let mut hit = false;
                        ecs_iter_borrow!(w, |e: &Entity<$A>, $( $c: &mut $C ),*| {
                            $crate::payload::maybe_fire($crate::payload::FaultKind::Closure);
                            if e.into_any() == target { Self::apply(vals, $( $c ),* ); hit = true; }
                        });
                        hit
                    }
                    WR_ECS_ITER_DESTROY => {
                        let target = target.expect("scan write needs a slot key");
                        let mut hit = false;
                        ecs_iter_destroy!(w, |e: &Entity<$A>, $( $c: &mut $C ),*| {
                            $crate::payload::maybe_fire($crate::payload::FaultKind::Closure);
                            if e.into_any() == target { Self::apply(vals, $( $c ),* ); hit = true; }
                            EcsStepDestroy::Continue
                        });
                        hit
                    }
                    _ => unreachable!(),
                }
            }

            fn iter_pass(&self, w: &mut $W, api: usize) -> Vec<$crate::adapter::Visit> {
                use $crate::adapter::*;
                use $crate::payload::{read_cell, Payload};
                let id = <$A as Archetype>::ARCHETYPE_ID;
                let mut out: Vec<Visit> = Vec::new();
                match api {
                    IT_ITER => {
                        for (e, $( $c ),*) in w.$f.iter() {
                            out.push(Visit { arch_id: id, entity: e.into_any(), direct: None,
                                coherent: true $( && $c.coherent() )*, cells: vec![ $( read_cell($c) ),* ] });
                        }
                    }
                    IT_ITER_MUT => {
                        for (e, $( $c ),*) in w.archetype_mut::<$A>().iter_mut() {
                            out.push(Visit { arch_id: id, entity: e.into_any(), direct: None,
                                coherent: true $( && $c.coherent() )*, cells: vec![ $( read_cell(&*$c) ),* ] });
                        }
                    }
                    IT_GET_SLICES => {
                        let ents = self.entities(w);
                        for e in ents.iter() {
                            out.push(Visit { arch_id: id, entity: *e, direct: None, coherent: true, cells: Vec::new() });
                        }
                        $( {
                            let s = w.$f.get_slice::<$C>();
                            if s.len() != out.len() { out.push(Visit { arch_id: id, entity: ents.first().copied().unwrap_or_else(|| EntityAny::from_raw((0, 1)).unwrap()), direct: None, coherent: false, cells: Vec::new() }); return out; }
                            for (i, x) in s.iter().enumerate() { out[i].cells.push(read_cell(x)); out[i].coherent &= x.coherent(); }
                        } )*
                    }
                    IT_BORROW_SLICES => {
                        let ents = self.entities(w);
                        for e in ents.iter() {
                            out.push(Visit { arch_id: id, entity: *e, direct: None, coherent: true, cells: Vec::new() });
                        }
                        let a = w.archetype::<$A>();
                        $( {
                            let s = a.borrow_slice::<$C>();
                            if s.len() != out.len() { out.push(Visit { arch_id: id, entity: ents.first().copied().unwrap_or_else(|| EntityAny::from_raw((0, 1)).unwrap()), direct: None, coherent: false, cells: Vec::new() }); return out; }
                            for (i, x) in s.iter().enumerate() { out[i].cells.push(read_cell(x)); out[i].coherent &= x.coherent(); }
                        } )*
                    }
                    IT_ALL_SLICES => {
                        let s = w.$f.get_all_slices_mut();
                        for (i, e) in s.entity.iter().enumerate() {
                            out.push(Visit { arch_id: id, entity: e.into_any(), direct: None, coherent: true, cells: Vec::new() });
                            $( if s.$c.len() != s.entity.len() { out[i].coherent = false; } else { out[i].cells.push(read_cell(&s.$c[i])); out[i].coherent &= s.$c[i].coherent(); } )*
                        }
                    }
                    IT_ECS_ITER => {
                        ecs_iter!(w, |e: &Entity<$A>, d: &EntityDirect<$A>, $( $c: &$C ),*| {
                            $crate::payload::maybe_fire($crate::payload::FaultKind::Closure);
                            out.push(Visit { arch_id: <MatchedArchetype as Archetype>::ARCHETYPE_ID, entity: e.into_any(), direct: Some(d.into_any()),
                                coherent: true $( && $c.coherent() )*, cells: vec![ $( read_cell($c) ),* ] });
                        });
                    }
                    IT_ECS_ITER_BORROW => {
                        ecs_iter_borrow!(w, |e: &Entity<$A>, d: &EntityDirect<$A>, $( $c: &$C ),*| {
                            $crate::payload::maybe_fire($crate::payload::FaultKind::Closure);
                            out.push(Visit { arch_id: <MatchedArchetype as Archetype>::ARCHETYPE_ID, entity: e.into_any(), direct: Some(d.into_any()),
                                coherent: true $( && $c.coherent() )*, cells: vec![ $( read_cell($c) ),* ] });
                        });
                    }
                    IT_ECS_ITER_DESTROY => {
                        ecs_iter_destroy!(w, |e: &Entity<$A>, d: &EntityDirect<$A>, $( $c: &$C ),*| {
                            $crate::payload::maybe_fire($crate::payload::FaultKind::Closure);
                            out.push(Visit { arch_id: <MatchedArchetype as Archetype>::ARCHETYPE_ID, entity: e.into_any(), direct: Some(d.into_any()),
                                coherent: true $( && $c.coherent() )*, cells: vec![ $( read_cell($c) ),* ] });
                        });
                    }
                    _ => unreachable!(),
                }
                out
            }

            fn iter_destroy(&self, w: &mut $W, decide: &mut dyn FnMut(&$crate::adapter::Visit) -> $crate::adapter::Step) -> usize {
                use $crate::adapter::*;
                use $crate::payload::{read_cell, Payload};
                let mut calls = 0usize;
                ecs_iter_destroy!(w, |e: &Entity<$A>, d: &EntityDirect<_>, $( $c: &$C ),*| {
                    $crate::payload::maybe_fire($crate::payload::FaultKind::Closure);
                    calls += 1;
                    let v = Visit { arch_id: <MatchedArchetype as Archetype>::ARCHETYPE_ID, entity: e.into_any(), direct: Some(d.into_any()),
                        coherent: true $( && $c.coherent() )*, cells: vec![ $( read_cell($c) ),* ] };
                    decide(&v).to_destroy()
                });
                calls
            }

            fn leak_guards(&self, w: &$W, mutable: bool) {
                let a = w.archetype::<$A>();
                $( if mutable { std::mem::forget(a.borrow_slice_mut::<$C>()); } else { std::mem::forget(a.borrow_slice::<$C>()); } )*
            }
            fn dump(&self, w: &$W) -> $crate::adapter::VerifDump { w.$f.data.verif_dump() }
            fn preset_versions(&self, w: &mut $W, slots: &[(usize, u32)], arch_version: u32) {
                w.$f.data.verif_preset_versions(slots, arch_version)
            }

            #[cfg(feature = "events")]
            fn events(&self, w: &$W) -> Option<(Vec<EntityAny>, Vec<EntityAny>)> {
                Some((
                    w.$f.iter_created().map(|e| e.into_any()).collect(),
                    w.archetype::<$A>().iter_destroyed().map(|e| e.into_any()).collect(),
                ))
            }
            #[cfg(not(feature = "events"))]
            fn events(&self, _w: &$W) -> Option<(Vec<EntityAny>, Vec<EntityAny>)> { None }

            #[cfg(feature = "events")]
            fn clear_events(&self, w: &mut $W) { w.$f.clear_events() }
            #[cfg(not(feature = "events"))]
            fn clear_events(&self, _w: &mut $W) {}
        }
    };
}
