//! Operations beyond create/destroy: writes, iteration passes, query loops with Break,
//! ecs_iter_destroy!, clone, world drop, events, and the churn patterns.

use crate::adapter::*;
use crate::engine::*;
use crate::guard::guard;
#[allow(unused_imports)]
use crate::guard::Caught;
use crate::model::MDirect;
use crate::payload::with_reg;
use crate::probe::ProbeCounts;
use crate::worlds::*;
use std::collections::BTreeMap;

impl<W: WorldOps> Engine<W> {
    /// A key of the requested kind for a live entity; direct kinds are minted by to_direct.
    pub fn fresh_key(&mut self, wi: usize, uid: usize, kind: usize) -> Option<Key> {
        let (ai, handle) = {
            let e = &self.slot(wi).m.ents[uid];
            (e.arch, e.handle)
        };
        if kind < 2 {
            return Some(Key::slot(kind, handle));
        }
        let a = self.archs[ai];
        let api = if self.rng.chance(1, 2) { LK_A_TO_DIRECT } else { LK_W_TO_DIRECT };
        let skind = self.rng.below(2);
        let s = self.worlds[wi].as_mut().unwrap();
        match guard(|| a.lookup(&mut s.w, api, Key::slot(skind, handle))) {
            Ok(Some(f)) => Some(Key::direct(kind, f.direct.unwrap())),
            Ok(None) => {
                self.viol(Some(wi), &["C01"], "lookup", format!("{}: to_direct rejected live handle {}", a.name(), raw_fmt(handle)));
                None
            }
            Err(c) => {
                self.unexpected_panic(Some(wi), "to_direct", &c);
                None
            }
        }
    }

    pub fn op_write(&mut self, wi: usize, uid: usize, api: usize, kind: usize) {
        let (ai, handle) = {
            let e = &self.slot(wi).m.ents[uid];
            (e.arch, e.handle)
        };
        let a = self.archs[ai];
        let kind = if WRITE_SCANS[api] { kind % 2 } else { kind };
        let Some(key) = self.fresh_key(wi, uid, kind) else { return };
        let ncols = self.cols[ai].len();
        let mut vals: Vec<Option<u64>> = vec![None; ncols];
        let mut any = false;
        for c in 0..ncols {
            if !self.cols[ai][c].zst && self.rng.chance(1, 2) {
                vals[c] = Some(self.rng.next() & self.cols[ai][c].mask);
                any = true;
            }
        }
        if !any {
            if let Some(c) = (0..ncols).find(|c| !self.cols[ai][*c].zst) {
                vals[c] = Some(self.rng.next() & self.cols[ai][c].mask);
            }
        }
        let wid = self.slot(wi).m.id;
        self.rep.log_op(format!("w{wid} write arch={} uid={uid} {} via {} key={} vals={:?}", a.name(), raw_fmt(handle), WRITE_NAMES[api], KEY_KINDS[kind], vals));
        self.rep.count(&format!("op.write.{}", WRITE_NAMES[api]));
        let res = {
            let s = self.worlds[wi].as_mut().unwrap();
            guard(|| a.write(&mut s.w, api, key, &vals))
        };
        match res {
            Ok(true) => {
                let row = &mut self.slot(wi).m.ents[uid].row;
                for c in 0..ncols {
                    if let Some(v) = vals[c] {
                        row[c].1 = v;
                    }
                }
            }
            Ok(false) => {
                self.viol(Some(wi), &["C01", "C02"], "write", format!("{}: {} ({}) did not find live entity {}", a.name(), WRITE_NAMES[api], KEY_KINDS[kind], raw_fmt(handle)));
            }
            Err(c) => self.unexpected_panic(Some(wi), &format!("write via {}", WRITE_NAMES[api]), &c),
        }
    }

    /// Compares one pass with the model's live set of the given archetypes.
    fn judge_pass(&mut self, wi: usize, what: &str, visits: &[Visit], expect: &BTreeMap<(u32, u32), (usize, Row)>, tags: &[&'static str], harvest: Option<&'static str>, pc: &mut ProbeCounts) {
        if visits.len() != expect.len() {
            self.viol(Some(wi), tags, "iteration", format!("{what}: {} items, expected {} live entities", visits.len(), expect.len()));
            return;
        }
        let mut seen = std::collections::BTreeSet::new();
        for (n, v) in visits.iter().enumerate() {
            let raw = v.entity.raw();
            let Some((uid, cells)) = expect.get(&raw) else {
                self.viol(Some(wi), tags, "iteration", format!("{what}: yielded {} which is not a live matching entity", raw_fmt(v.entity)));
                return;
            };
            if !seen.insert(raw) {
                self.viol(Some(wi), tags, "iteration", format!("{what}: yielded {} twice", raw_fmt(v.entity)));
                return;
            }
            if !v.cells.is_empty() || !cells.is_empty() {
                if &v.cells != cells {
                    self.viol(Some(wi), &["C06", "C02"], "iteration", format!("{what}: {} paired with cells {:?}, expected {:?}", raw_fmt(v.entity), v.cells, cells));
                    return;
                }
            }
            if !v.coherent {
                self.viol(Some(wi), &["C06", "C02"], "iteration", format!("{what}: incoherent component for {}", raw_fmt(v.entity)));
                return;
            }
            let aid = self.archs[self.sl(wi).m.ents[*uid].arch].id();
            if v.arch_id != aid {
                self.viol(Some(wi), &["C06", "C05"], "iteration", format!("{what}: {} visited with MatchedArchetype id {}", raw_fmt(v.entity), v.arch_id));
                return;
            }
            if let (Some(src), Some(d)) = (harvest, v.direct) {
                if n < 3 || n + 2 >= visits.len() {
                    self.harvest_direct(wi, *uid, d, src, pc);
                }
            }
        }
    }

    fn expect_arch(&mut self, wi: usize, ai: usize, proj: Option<&[usize]>) -> BTreeMap<(u32, u32), (usize, Row)> {
        let s = self.slot(wi);
        let mut m = BTreeMap::new();
        for uid in s.m.archs[ai].live.iter() {
            let e = &s.m.ents[*uid];
            let cells = match proj {
                None => e.row.clone(),
                Some(p) => p.iter().map(|c| e.row[*c]).collect(),
            };
            m.insert(e.handle.raw(), (*uid, cells));
        }
        m
    }

    fn expect_query(&mut self, wi: usize, q: usize) -> BTreeMap<(u32, u32), (usize, Row)> {
        let mut m = BTreeMap::new();
        for ai in 0..self.archs.len() {
            if let Some(p) = self.qmatch[q][ai].clone() {
                m.extend(self.expect_arch(wi, ai, Some(&p)));
            }
        }
        m
    }

    /// Every iteration path of every archetype plus every cross-archetype query.
    pub fn check_iteration(&mut self, wi: usize, pc: &mut ProbeCounts) {
        if self.rep.failed() {
            return;
        }
        for ai in 0..self.archs.len() {
            let a = self.archs[ai];
            let expect = self.expect_arch(wi, ai, None);
            let state = {
                let s = self.slot(wi);
                let (l, c) = (a.len(&s.w), a.capacity(&s.w));
                if l == 0 { 0 } else if l == c { 1 } else { 2 }
            };
            self.rep.count(["iter.state.empty", "iter.state.full", "iter.state.partial"][state]);
            for api in 0..N_ITERS {
                let res = {
                    let s = self.worlds[wi].as_mut().unwrap();
                    guard(|| a.iter_pass(&mut s.w, api))
                };
                match res {
                    Ok(v) => {
                        self.rep.count(&format!("pass.{}", ITER_NAMES[api]));
                        self.rep.add("pass.items", v.len() as u64);
                        let src = if api >= IT_ECS_ITER { Some(ITER_NAMES[api]) } else { None };
                        self.judge_pass(wi, &format!("{} over {}", ITER_NAMES[api], a.name()), &v, &expect, &["C06"], src, pc);
                    }
                    Err(c) => self.unexpected_panic(Some(wi), &format!("{} over {}", ITER_NAMES[api], a.name()), &c),
                }
                if self.rep.failed() {
                    return;
                }
            }
        }
        for q in 0..self.queries.len() {
            let expect = self.expect_query(wi, q);
            for mode in 0..QUERY_MODES.len() {
                let mut visits: Vec<Visit> = Vec::new();
                let res = {
                    let s = self.worlds[wi].as_mut().unwrap();
                    guard(|| W::run_query(&mut s.w, q, mode, &mut |v| {
                        visits.push(v.clone());
                        Step::Continue
                    }))
                };
                match res {
                    Ok(()) => {
                        self.rep.count(&format!("query.{}.{}", QUERY_MODES[mode], self.queries[q].name));
                        self.rep.add("query.items", visits.len() as u64);
                        let name = format!("{} query '{}'", QUERY_MODES[mode], self.queries[q].name);
                        self.judge_pass(wi, &name, &visits, &expect, &["C06", "C05"], Some(QUERY_MODES[mode]), pc);
                    }
                    Err(c) => self.unexpected_panic(Some(wi), &format!("{} query '{}'", QUERY_MODES[mode], self.queries[q].name), &c),
                }
                if self.rep.failed() {
                    return;
                }
            }
        }
    }

    /// Break at the k-th closure call must end the whole query at once.
    pub fn op_break(&mut self, wi: usize) {
        let q = self.rng.below(self.queries.len());
        let mode = self.rng.below(QUERY_MODES.len());
        let expect = self.expect_query(wi, q);
        let total = expect.len();
        if total == 0 {
            return;
        }
        let k = match self.rng.below(4) {
            0 => 0,
            1 => total - 1,
            _ => self.rng.below(total),
        };
        let wid = self.slot(wi).m.id;
        self.rep.log_op(format!("w{wid} break query='{}' mode={} at call {k} of {total}", self.queries[q].name, QUERY_MODES[mode]));
        self.rep.count(&format!("op.break.{}", QUERY_MODES[mode]));
        self.rep.seen("break_positions", (q as u64) << 40 | (mode as u64) << 32 | (k as u64) << 16 | total as u64);
        let mut visits: Vec<Visit> = Vec::new();
        let res = {
            let s = self.worlds[wi].as_mut().unwrap();
            guard(|| W::run_query(&mut s.w, q, mode, &mut |v| {
                visits.push(v.clone());
                if visits.len() == k + 1 { Step::Break } else { Step::Continue }
            }))
        };
        if let Err(c) = res {
            self.unexpected_panic(Some(wi), "query with Break", &c);
            return;
        }
        // Break inside ecs_iter_destroy! is C07's clause, inside ecs_iter!/ecs_iter_borrow! C06's
        let btags: &[&'static str] = if mode >= QM_ITER_DESTROY { &["C07"] } else { &["C06"] };
        if visits.len() != k + 1 {
            self.viol(Some(wi), btags, "break", format!("{} query '{}': Break returned at call {} of {total}, but the closure ran {} times", QUERY_MODES[mode], self.queries[q].name, k + 1, visits.len()));
            return;
        }
        let mut seen = std::collections::BTreeSet::new();
        for v in visits.iter() {
            match expect.get(&v.entity.raw()) {
                Some((_, cells)) if *cells == v.cells && seen.insert(v.entity.raw()) => {}
                _ => {
                    self.viol(Some(wi), btags, "break", format!("query '{}' with Break: bad or repeated visit {}", self.queries[q].name, raw_fmt(v.entity)));
                    return;
                }
            }
        }
    }

    /// ecs_iter_destroy! with a decision function keyed by entity (independent of visit order).
    /// `arch_level`: Some(ai) uses the adapter's typed loop over one archetype.
    pub fn op_iter_destroy(&mut self, wi: usize, arch_level: Option<usize>, q: usize, salt: u64, weights: [u32; 4], pc: &mut ProbeCounts) {
        let expect = match arch_level {
            Some(ai) => self.expect_arch(wi, ai, None),
            None => self.expect_query(wi, q),
        };
        let mut decisions: BTreeMap<(u32, u32), Step> = BTreeMap::new();
        for (raw, (uid, _)) in expect.iter() {
            let mut r = crate::rng::Rng::new(salt, *uid as u64);
            let d = [Step::Continue, Step::ContinueDestroy, Step::Break, Step::BreakDestroy][r.weighted(&weights)];
            decisions.insert(*raw, d);
        }
        self.op_iter_destroy_with(wi, arch_level, q, decisions, pc);
    }

    /// Same, with an explicit decision per entity handle (used by the exhaustive enumeration).
    pub fn op_iter_destroy_with(&mut self, wi: usize, arch_level: Option<usize>, q: usize, decisions: BTreeMap<(u32, u32), Step>, pc: &mut ProbeCounts) {
        let expect = match arch_level {
            Some(ai) => self.expect_arch(wi, ai, None),
            None => self.expect_query(wi, q),
        };
        let wid = self.slot(wi).m.id;
        let what = match arch_level {
            Some(ai) => format!("ecs_iter_destroy!(Entity<{}>)", self.archs[ai].name()),
            None => format!("ecs_iter_destroy! query '{}'", self.queries[q].name),
        };
        self.rep.log_op(format!("w{wid} {what} population={} decisions={:?}", expect.len(), decisions.values().collect::<Vec<_>>()));
        self.rep.count("op.iter_destroy");
        let mut pat = FNV0X;
        for d in decisions.values() {
            pat = crate::report::fnv(pat, *d as u64);
        }
        self.rep.seen("iter_destroy_decision_patterns", pat);
        let mut visits: Vec<(Visit, Option<Step>)> = Vec::new();
        let mut after_break = 0usize;
        let mut broke = false;
        let res = {
            let s = self.worlds[wi].as_mut().unwrap();
            let mut f = |v: &Visit| {
                if broke {
                    after_break += 1;
                }
                let d = decisions.get(&v.entity.raw()).copied();
                visits.push((v.clone(), d));
                let d = d.unwrap_or(Step::Continue);
                if d.breaks() {
                    broke = true;
                }
                d
            };
            match arch_level {
                Some(ai) => {
                    let a = self.archs[ai];
                    guard(|| {
                        a.iter_destroy(&mut s.w, &mut f);
                    })
                }
                None => guard(|| W::run_query(&mut s.w, q, QM_ITER_DESTROY, &mut f)),
            }
        };
        let mut overflow_at_last = false;
        let mut drop_fault_at_last = false;
        if let Err(Caught::Injected(k)) = &res {
            // injected by the fault workload: a closure fault happens before the visit is
            // logged (all logged visits are complete); a Drop fault happens while the loop
            // drops the components of the entity it just destroyed (the last logged visit)
            self.rep.count(&format!("fault.iter_destroy.{}", kind_of(*k)));
            self.slot(wi).m.faulted = true;
            broke = true;
            if *k == crate::payload::FaultKind::Drop {
                drop_fault_at_last = true;
            }
        } else if let Err(c) = res {
            // a version overflow inside the loop's destroy is a documented panic: legal iff the
            // entity whose destruction was in progress needed a counter beyond u32::MAX
            let last_uid = visits.last().and_then(|(v, _)| expect.get(&v.entity.raw()).map(|x| x.0));
            let legit = c.contains("version overflow") && !self.wrapping && visits.last().map(|(_, d)| d.map(|d| d.destroys()).unwrap_or(false)).unwrap_or(false);
            if !legit || last_uid.is_none() {
                self.unexpected_panic(Some(wi), &what, &c);
                return;
            }
            overflow_at_last = true;
            self.rep.count("overflow.panic.in_iter_destroy");
        }
        self.rep.add("iter_destroy.visits", visits.len() as u64);
        if after_break > 0 {
            self.viol(Some(wi), &["C07"], "iter-destroy", format!("{what}: closure ran {after_break} more times after Break/BreakDestroy"));
            return;
        }
        let mut seen = std::collections::BTreeSet::new();
        let step = self.rep.step;
        let mut destroyed_rows: Vec<Row> = Vec::new();
        for (v, d) in visits.iter() {
            let raw = v.entity.raw();
            let Some((uid, cells)) = expect.get(&raw) else {
                self.viol(Some(wi), &["C07"], "iter-destroy", format!("{what}: visited {} which was not a live matching entity when the loop started", raw_fmt(v.entity)));
                return;
            };
            if !seen.insert(raw) {
                self.viol(Some(wi), &["C07"], "iter-destroy", format!("{what}: visited {} twice", raw_fmt(v.entity)));
                return;
            }
            if &v.cells != cells || !v.coherent {
                self.viol(Some(wi), &["C07", "C02"], "iter-destroy", format!("{what}: {} visited with cells {:?}, expected {:?}", raw_fmt(v.entity), v.cells, cells));
                return;
            }
            let uid = *uid;
            let ai = self.slot(wi).m.ents[uid].arch;
            if v.arch_id != self.archs[ai].id() {
                self.viol(Some(wi), &["C07", "C05"], "iter-destroy", format!("{what}: {} visited with MatchedArchetype id {}", raw_fmt(v.entity), v.arch_id));
                return;
            }
            if let Some(dh) = v.direct {
                // stamped with the archetype's counters at the moment of the hand-over
                let s = self.slot(wi);
                let rec = MDirect { handle: dh, arch: ai, uid, removals: s.m.archs[ai].removals, creations: s.m.archs[ai].creations, source: "ecs_iter_destroy!", step };
                *pc.directs_seen_by_source.entry("ecs_iter_destroy!").or_insert(0) += 1;
                if s.m.add_direct(rec) {
                    *pc.directs_by_source.entry("ecs_iter_destroy!").or_insert(0) += 1;
                }
            }
            let is_last = seen.len() == visits.len();
            if drop_fault_at_last && is_last {
                self.after_fault(wi, &[uid], "Drop panic inside ecs_iter_destroy!");
                break;
            }
            if overflow_at_last && is_last {
                if !self.expect_version_overflow(wi, uid) {
                    self.viol(Some(wi), &["C08", "C10"], "overflow-spurious", format!("{what}: 'version overflow' panic while destroying {} whose counters are not at u32::MAX", raw_fmt(v.entity)));
                    return;
                }
                self.after_fault(wi, &[uid], "version overflow inside ecs_iter_destroy!");
                broke = true;
                break;
            }
            if d.unwrap().destroys() {
                if self.expect_version_overflow(wi, uid) {
                    self.viol(Some(wi), &["C08"], "overflow-no-panic", format!("{what}: destroying {} needed a generation counter beyond u32::MAX but did not panic", raw_fmt(v.entity)));
                    return;
                }
                // the flagged entity must be gone (checked before the drop accounting so that a
                // loop that does not destroy is reported as such, not as a leak)
                let still = {
                    let a = self.archs[ai];
                    let s = self.worlds[wi].as_mut().unwrap();
                    guard(|| a.lookup(&mut s.w, LK_A_CONTAINS, Key::Typed(v.entity, false)))
                };
                if let Ok(Some(_)) = still {
                    self.viol(Some(wi), &["C07", "C01"], "iter-destroy", format!("{what}: {} was flagged {:?} but is still alive after the loop", raw_fmt(v.entity), d.unwrap()));
                    return;
                }
                destroyed_rows.push(self.slot(wi).m.ents[uid].row.clone());
                self.slot(wi).m.remove(uid, step);
                self.rep.count("iter_destroy.destroyed");
            }
        }
        if !broke && visits.len() != expect.len() {
            let missing = expect.keys().find(|k| !seen.contains(*k)).unwrap();
            self.viol(Some(wi), &["C07"], "iter-destroy", format!("{what}: visited {} of {} entities without a Break; e.g. (key {:#x} gen {}) was skipped", visits.len(), expect.len(), missing.0, missing.1));
            return;
        }
        for row in destroyed_rows {
            self.tokens_dropped_pub(Some(wi), &row, "components destroyed by ecs_iter_destroy!");
        }
        if broke {
            self.rep.count("iter_destroy.broke");
        }
    }

    pub fn tokens_dropped_pub(&mut self, wi: Option<usize>, row: &Row, what: &str) {
        for cell in row.iter() {
            if cell.0 != 0 && with_reg(|r| r.is_live(cell.0)) {
                self.viol(wi, &["C04"], "registry-leak", format!("{what}: component token {} was not dropped", cell.0));
            }
        }
    }

    // ---- clone / drop ------------------------------------------------------------------

    pub fn op_clone(&mut self, wi: usize) -> Option<usize> {
        let wid = self.slot(wi).m.id;
        self.rep.log_op(format!("w{wid} clone"));
        self.rep.count("op.clone");
        with_reg(|r| {
            r.clone_log = Some(Vec::new());
            r.zst_clone_log = [0; 4];
        });
        let res = {
            let s = self.worlds[wi].as_ref().unwrap();
            guard(|| s.w.clone())
        };
        let (log, zlog) = with_reg(|r| (r.clone_log.take().unwrap_or_default(), r.zst_clone_log));
        let w2 = match res {
            Ok(w) => w,
            Err(c) => {
                self.unexpected_panic(Some(wi), "clone", &c);
                return None;
            }
        };
        let mut m2 = self.slot(wi).m.clone();
        let map: BTreeMap<u64, u64> = log.iter().copied().collect();
        if map.len() != log.len() {
            self.viol(Some(wi), &["C04", "C13"], "clone", "a component was cloned more than once by one world.clone()".into());
            return None;
        }
        let mut zwant = [0u64; 4];
        let mut used = 0usize;
        m2.token_owner.clear();
        for ai in 0..m2.archs.len() {
            for uid in m2.archs[ai].live.clone() {
                for c in 0..m2.ents[uid].row.len() {
                    let t = m2.ents[uid].row[c].0;
                    if t != 0 {
                        match map.get(&t) {
                            Some(n) => {
                                m2.ents[uid].row[c].0 = *n;
                                m2.token_owner.insert(*n, (uid, c));
                                used += 1;
                            }
                            None => {
                                self.viol(Some(wi), &["C04", "C13", "C02"], "clone", format!("component token {t} of a live entity was not cloned (shallow copy?)"));
                                return None;
                            }
                        }
                    } else if self.cols[ai][c].zst_index < 4 {
                        zwant[self.cols[ai][c].zst_index] += 1;
                    }
                }
            }
        }
        if used != log.len() {
            self.viol(Some(wi), &["C04", "C13"], "clone", format!("world.clone() cloned {} components but only {} belong to live entities", log.len(), used));
            return None;
        }
        if zlog != zwant {
            self.viol(Some(wi), &["C04", "C13"], "clone", format!("zero-sized components cloned {:?}, expected {:?}", zlog, zwant));
            return None;
        }
        // state class for evidence
        for ai in 0..self.archs.len() {
            let a = self.archs[ai];
            let (l, c, holes, d1, d2, ev_same) = {
                let s = self.sl(wi);
                (a.len(&s.w), a.capacity(&s.w), s.m.archs[ai].removals > 0, a.dump(&s.w), a.dump(&w2), a.events(&s.w) == a.events(&w2))
            };
            let class = if c == 0 { "cap0" } else if l == 0 { "empty" } else if l == c { "full" } else if holes { "partial-after-churn" } else { "partial-fresh" };
            self.rep.count(&format!("clone.src_state.{class}"));
            if d1 != d2 {
                // which other properties the difference refutes depends on what differs: other
                // generations => old handles resolve / are reissued in the clone; another free
                // list, len or capacity => the clone cannot be refilled exactly; another
                // archetype version => direct handles differ
                let mut tags: Vec<&'static str> = vec!["C13"];
                let gens = |d: &VerifDump| d.slots.iter().map(|s| s.1).collect::<Vec<_>>();
                if gens(&d1) != gens(&d2) {
                    tags.push("C01");
                    tags.push("C08");
                }
                if d1.free_head != d2.free_head || d1.len != d2.len || d1.capacity != d2.capacity || d1.slots.iter().map(|s| s.0).ne(d2.slots.iter().map(|s| s.0)) {
                    tags.push("C12");
                }
                if d1.version != d2.version {
                    tags.push("C09");
                }
                self.viol(Some(wi), &tags, "clone-dump", format!("{}: bookkeeping of the clone differs from the source right after clone(): {:?} vs {:?}", a.name(), d2, d1));
                return None;
            }
            if !ev_same {
                self.viol(Some(wi), &["C13", "C17"], "clone-events", format!("{}: pending events differ between clone and source", a.name()));
                return None;
            }
        }
        m2.id = self.next_world_id;
        self.next_world_id += 1;
        m2.clone_lineage = true;
        self.slot(wi).m.clone_lineage = true;
        let slot = Slot { w: w2, m: m2 };
        let free = self.worlds.iter().position(|s| s.is_none());
        let ni = match free {
            Some(i) => {
                self.worlds[i] = Some(slot);
                i
            }
            None if self.worlds.len() < self.prof.max_worlds => {
                self.worlds.push(Some(slot));
                self.worlds.len() - 1
            }
            None => {
                // replace another world (dropping it, with the drop oracle)
                let others: Vec<usize> = self.live_worlds().into_iter().filter(|i| *i != wi).collect();
                let victim = if others.is_empty() { wi } else { *self.rng.pick(&others) };
                self.op_drop_world(victim);
                self.worlds[victim] = Some(slot);
                victim
            }
        };
        self.rep.count("clones_made");
        Some(ni)
    }

    pub fn op_drop_world(&mut self, wi: usize) {
        let Some(slot) = self.worlds[wi].take() else { return };
        let Slot { w, m } = slot;
        let live = m.live_count();
        // a leaked (mem::forget) runtime-borrow guard does not own anything: the world must still
        // drop every component when it goes away
        if live > 0 && self.rng.chance(1, 3) {
            let pop: Vec<usize> = (0..self.archs.len()).filter(|i| !m.archs[*i].live.is_empty()).collect();
            let ai = *self.rng.pick(&pop);
            let mutable = self.rng.chance(1, 2);
            self.archs[ai].leak_guards(&w, mutable);
            self.rep.log_op(format!("w{} leak {} guards of every column of {}", m.id, if mutable { "mutable" } else { "shared" }, self.archs[ai].name()));
            self.rep.count("drop_world.after_leaked_guards");
        }
        self.rep.log_op(format!("w{} drop_world live={live}", m.id));
        self.rep.count("op.drop_world");
        self.rep.count(if live == 0 { "drop_world.empty" } else { "drop_world.populated" });
        let res = guard(move || drop(w));
        if let Err(c) = res {
            self.unexpected_panic(None, "world drop", &c);
            return;
        }
        for a in m.archs.iter() {
            for uid in a.live.iter() {
                let row = m.ents[*uid].row.clone();
                self.tokens_dropped_pub(None, &row, &format!("world w{} was dropped but", m.id));
            }
        }
    }

    // ---- events ------------------------------------------------------------------------

    pub fn check_events(&mut self, wi: usize) {
        if !self.events || self.rep.failed() {
            return;
        }
        let mut all_c: Vec<(u32, u32)> = Vec::new();
        let mut all_d: Vec<(u32, u32)> = Vec::new();
        let mut pattern = 0u64;
        for ai in 0..self.archs.len() {
            let a = self.archs[ai];
            let s = self.slot(wi);
            let Some((c, d)) = a.events(&s.w) else { return };
            let mut c: Vec<(u32, u32)> = c.iter().map(|e| e.raw()).collect();
            let mut d: Vec<(u32, u32)> = d.iter().map(|e| e.raw()).collect();
            let mut mc: Vec<(u32, u32)> = s.m.archs[ai].created_ev.iter().map(|e| e.raw()).collect();
            let mut md: Vec<(u32, u32)> = s.m.archs[ai].destroyed_ev.iter().map(|e| e.raw()).collect();
            c.sort();
            d.sort();
            mc.sort();
            md.sort();
            pattern = pattern << 2 | (!mc.is_empty() as u64) << 1 | !md.is_empty() as u64;
            if c != mc {
                self.viol(Some(wi), &["C17"], "events", format!("{}: iter_created has {} entries {:?}.., expected {} {:?}..", a.name(), c.len(), c.iter().take(6).collect::<Vec<_>>(), mc.len(), mc.iter().take(6).collect::<Vec<_>>()));
                return;
            }
            if d != md {
                self.viol(Some(wi), &["C17"], "events", format!("{}: iter_destroyed has {} entries {:?}.., expected {} {:?}..", a.name(), d.len(), d.iter().take(6).collect::<Vec<_>>(), md.len(), md.iter().take(6).collect::<Vec<_>>()));
                return;
            }
            all_c.extend(mc);
            all_d.extend(md);
        }
        self.rep.seen("event_log_emptiness_patterns", pattern);
        self.rep.count("events.checks");
        let Some((wc, wd)) = W::world_events(&self.slot(wi).w) else { return };
        for (name, items, mut want) in [("iter_created", wc, all_c), ("iter_destroyed", wd, all_d)] {
            let total = want.len();
            let mut got: Vec<(u32, u32)> = Vec::new();
            let mut ended = false;
            for (i, (hint, item)) in items.iter().enumerate() {
                let remaining = total.saturating_sub(got.len());
                if *hint != (remaining, Some(remaining)) {
                    self.viol(Some(wi), &["C17"], "events-size-hint", format!("World::{name}: size_hint {:?} at position {i}, expected ({remaining}, Some({remaining}))", hint));
                    return;
                }
                match item {
                    Some(e) if !ended => got.push(e.raw()),
                    Some(_) => {
                        self.viol(Some(wi), &["C17"], "events", format!("World::{name}: yielded an item after None"));
                        return;
                    }
                    None => ended = true,
                }
            }
            self.rep.add("events.size_hints_checked", items.len() as u64);
            got.sort();
            want.sort();
            if got != want {
                self.viol(Some(wi), &["C17"], "events", format!("World::{name}: {} items, expected the union of the archetype logs ({})", got.len(), want.len()));
                return;
            }
        }
    }

    pub fn op_clear_events(&mut self, wi: usize) {
        // the random draws happen in every configuration so that histories stay comparable
        let world_level = self.rng.chance(1, 3);
        let pick = self.rng.below(self.archs.len());
        if !self.events {
            return;
        }
        let wid = self.slot(wi).m.id;
        if world_level {
            self.rep.log_op(format!("w{wid} World::clear_events"));
            self.rep.count("op.clear_events.world");
            let s = self.worlds[wi].as_mut().unwrap();
            let r = guard(|| W::clear_events(&mut s.w));
            if let Err(c) = r {
                self.unexpected_panic(Some(wi), "clear_events", &c);
            }
            for a in self.slot(wi).m.archs.iter_mut() {
                a.created_ev.clear();
                a.destroyed_ev.clear();
            }
        } else {
            let ai = pick;
            let a = self.archs[ai];
            self.rep.log_op(format!("w{wid} {}::clear_events", a.name()));
            self.rep.count("op.clear_events.archetype");
            let s = self.worlds[wi].as_mut().unwrap();
            let r = guard(|| a.clear_events(&mut s.w));
            if let Err(c) = r {
                self.unexpected_panic(Some(wi), "clear_events", &c);
            }
            let m = &mut self.slot(wi).m.archs[ai];
            m.created_ev.clear();
            m.destroyed_ev.clear();
        }
    }

    // ---- churn patterns ----------------------------------------------------------------

    /// Recycles one storage position many times.
    pub fn op_hot_slot(&mut self, wi: usize, ai: usize, n: usize) -> Vec<usize> {
        let mut touched = Vec::new();
        for _ in 0..n {
            let path = self.rng.below(N_CREATES);
            let Some(uid) = self.op_create(wi, ai, path) else { continue };
            touched.push(uid);
            let (level, kind) = (self.rng.below(2), self.rng.below(4));
            self.op_destroy(wi, uid, level, kind);
            if self.rep.failed() {
                break;
            }
        }
        self.rep.maxi("max_hot_slot_cycles", n as u64);
        let keep = touched.len().saturating_sub(4);
        touched.split_off(keep)
    }

    /// Removes a pattern of entities, then refills to exactly capacity() without growth.
    pub fn op_drain_refill(&mut self, wi: usize, ai: usize) {
        let a = self.archs[ai];
        let dense = a.entities(&self.slot(wi).w);
        let n = dense.len();
        let pattern = self.rng.below(5);
        let names = ["evens", "prefix", "suffix", "random", "all"];
        self.rep.count(&format!("drain_refill.{}", names[pattern]));
        let k = if n == 0 { 0 } else { self.rng.below(n) + 1 };
        let pick: Vec<usize> = match pattern {
            0 => (0..n).filter(|i| i % 2 == 0).collect(),
            1 => (0..k).collect(),
            2 => (n - k..n).collect(),
            3 => (0..n).filter(|_| self.rng.chance(1, 2)).collect(),
            _ => (0..n).collect(),
        };
        for i in pick {
            let raw = dense[i].raw();
            let Some(uid) = self.slot(wi).m.issued.get(&raw).copied() else { continue };
            if !self.slot(wi).m.ents[uid].alive {
                continue;
            }
            let (level, kind) = (self.rng.below(2), self.rng.below(4));
            self.op_destroy(wi, uid, level, kind);
            if self.rep.failed() {
                return;
            }
        }
        let (len, cap) = {
            let s = self.slot(wi);
            (a.len(&s.w), a.capacity(&s.w))
        };
        if cap > 600 {
            return;
        }
        for _ in len..cap {
            let path = if self.rng.chance(3, 4) { CR_W_WITHIN + self.rng.below(2) } else { self.rng.below(2) };
            if self.op_create(wi, ai, path).is_none() && !self.rep.failed() {
                self.viol(Some(wi), &["C12"], "refill", format!("{}: could not refill to capacity {cap}", a.name()));
            }
            if self.rep.failed() {
                return;
            }
        }
        // one more within-capacity creation must be refused
        let path = CR_W_WITHIN + self.rng.below(2);
        if self.op_create(wi, ai, path).is_some() {
            // op_create already flagged success at len == capacity
        }
        self.rep.count("refill_cycles");
    }
}

const FNV0X: u64 = crate::report::FNV0;
