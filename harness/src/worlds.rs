//! The worlds the harness runs against, declared with the real `ecs_world!`, plus their
//! adapters and the cross-archetype queries.

use crate::adapter::{Arch, Step, Visit};
use gecs::prelude::EntityAny;

/// A cross-archetype query of a world: which components it names.
#[derive(Clone, Debug)]
pub struct QueryInfo {
    pub name: &'static str,
    /// components every matched archetype must have (cells come first, in this order)
    pub required: Vec<&'static str>,
    /// OneOf group: exactly one member must be present (its cell comes last)
    pub one_of: Vec<&'static str>,
}

pub const QM_ITER: usize = 0;
pub const QM_ITER_BORROW: usize = 1;
pub const QM_ITER_DESTROY: usize = 2;
/// ecs_iter_destroy! with a closure that returns plain `EcsStep` (converted by `From<EcsStep>`)
pub const QM_ITER_DESTROY_STEP: usize = 3;
pub const QUERY_MODES: [&str; 4] = ["ecs_iter!", "ecs_iter_borrow!", "ecs_iter_destroy!", "ecs_iter_destroy!(EcsStep)"];

/// One step of a world-level event iterator: size_hint before the call, then the item.
pub type HintedItems = Vec<((usize, Option<usize>), Option<EntityAny>)>;

pub trait WorldOps: Sized + Clone + 'static {
    const NAME: &'static str;
    fn archs() -> Vec<&'static dyn Arch<Self>>;
    fn num_archetypes() -> usize;
    /// ctor: 0 = with_capacity, 1 = new(), 2 = default() (1 and 2 need all caps == 0)
    fn build(caps: &[usize], ctor: usize) -> Self;
    fn queries() -> Vec<QueryInfo>;
    /// Runs query `q` in `mode`; `f` sees every closure invocation and steers it.
    fn run_query(w: &mut Self, q: usize, mode: usize, f: &mut dyn FnMut(&Visit) -> Step);
    fn world_events(w: &Self) -> Option<(HintedItems, HintedItems)>;
    fn clear_events(w: &mut Self);
}

#[cfg(feature = "events")]
pub fn hinted<'a>(mut it: impl Iterator<Item = &'a EntityAny>) -> HintedItems {
    let mut out = Vec::new();
    loop {
        let hint = it.size_hint();
        let item = it.next().copied();
        let done = item.is_none();
        out.push((hint, item));
        if done {
            // a fused-style second call must stay None and keep an exact hint
            let hint2 = it.size_hint();
            let again = it.next().copied();
            out.push((hint2, again));
            break;
        }
    }
    out
}

macro_rules! query_body {
    ($mode:expr, $f:ident, $e:ident, $d:ident, [ $( $c:ident ),* ]) => {{
        $crate::payload::maybe_fire($crate::payload::FaultKind::Closure);
        let v = Visit {
            arch_id: <MatchedArchetype as Archetype>::ARCHETYPE_ID,
            entity: (*$e).into(),
            direct: Some((*$d).into()),
            coherent: true $( && $crate::payload::Payload::coherent($c) )*,
            cells: vec![ $( $crate::payload::read_cell($c) ),* ],
        };
        $f(&v)
    }};
}

/// Stamps out the three query macros for one parameter list. The parameter list is passed
/// as raw tokens (the gecs parsers look at identifiers such as `Entity` directly).
macro_rules! run3 {
    ($w:ident, $mode:ident, $f:ident, [ $e:ident, $d:ident $(, $c:ident )* ], $($params:tt)* ) => {
        match $mode {
            QM_ITER => ecs_iter!($w, $($params)* {
                query_body!($mode, $f, $e, $d, [ $( $c ),* ]).to_step()
            }),
            QM_ITER_BORROW => ecs_iter_borrow!($w, $($params)* {
                query_body!($mode, $f, $e, $d, [ $( $c ),* ]).to_step()
            }),
            QM_ITER_DESTROY => ecs_iter_destroy!($w, $($params)* {
                query_body!($mode, $f, $e, $d, [ $( $c ),* ]).to_destroy()
            }),
            QM_ITER_DESTROY_STEP => ecs_iter_destroy!($w, $($params)* {
                query_body!($mode, $f, $e, $d, [ $( $c ),* ]).to_step()
            }),
            _ => unreachable!(),
        }
    };
}

pub mod wmain {
    use super::*;
    use crate::payload::*;
    use gecs::prelude::*;

    ecs_world! {
        ecs_name!(WMain);

        ecs_archetype!(ArchOne, Pa);

        ecs_archetype!(ArchTwo, Pb, Za);

        #[archetype_id(7)]
        ecs_archetype!(ArchHeap, Ha, Hb, Hc);

        ecs_archetype!(ArchAlign, Bn, Wt, Qs, Ls);

        #[cfg(feature = "c32")]
        #[archetype_id(100)]
        ecs_archetype!(ArchXvii, Pa, Pb, Pc, Pd, Pe, Pf, Pg, Ph, Pi, Pj, Pk, Pl, Pm, Pn, Po, Pp, Pq);

        #[cfg(feature = "c32")]
        ecs_archetype!(
            ArchXxxii,
            Pa, Pb, Pc, Pd, Pe, Pf, Pg, Ph, Pi, Pj, Pk, Pl, Pm, Pn, Po, Pp, Pq, Pr, Ps, Pt, Pu, Pv, Pw, Px,
            Ha, Hb, Bn, Wt, Ls, Za, Zb, Zn,
        );

        #[archetype_id(200)]
        ecs_archetype!(ArchWide, Pa, Pb, Pc, Pd, Pe, Pf, Pg, Ph, Ha, Zb, Ls, Bn, Zn, Hb, Wt, Qs);

        #[archetype_id(254)]
        ecs_archetype!(ArchTwin, Za, Pb);

        ecs_archetype!(ArchEmpty, Pa, Pb);
    }

    crate::arch_adapter!(world = WMain, adapter = AdOne, arch = ArchOne, field = arch_one, comps = ArchOneComponents,
        cols = [(Pa, pa)]);
    crate::arch_adapter!(world = WMain, adapter = AdTwo, arch = ArchTwo, field = arch_two, comps = ArchTwoComponents,
        cols = [(Pb, pb), (Za, za)]);
    crate::arch_adapter!(world = WMain, adapter = AdHeap, arch = ArchHeap, field = arch_heap, comps = ArchHeapComponents,
        cols = [(Ha, ha), (Hb, hb), (Hc, hc)]);
    crate::arch_adapter!(world = WMain, adapter = AdAlign, arch = ArchAlign, field = arch_align, comps = ArchAlignComponents,
        cols = [(Bn, bn), (Wt, wt), (Qs, qs), (Ls, ls)]);
    crate::arch_adapter!(world = WMain, adapter = AdWide, arch = ArchWide, field = arch_wide, comps = ArchWideComponents,
        cols = [(Pa, pa), (Pb, pb), (Pc, pc), (Pd, pd), (Pe, pe), (Pf, pf), (Pg, pg), (Ph, ph),
                (Ha, ha), (Zb, zb), (Ls, ls), (Bn, bn), (Zn, zn), (Hb, hb), (Wt, wt), (Qs, qs)]);
    crate::arch_adapter!(world = WMain, adapter = AdTwin, arch = ArchTwin, field = arch_twin, comps = ArchTwinComponents,
        cols = [(Za, za), (Pb, pb)]);
    crate::arch_adapter!(world = WMain, adapter = AdEmpty, arch = ArchEmpty, field = arch_empty, comps = ArchEmptyComponents,
        cols = [(Pa, pa), (Pb, pb)]);
    #[cfg(feature = "c32")]
    crate::arch_adapter!(world = WMain, adapter = AdXvii, arch = ArchXvii, field = arch_xvii, comps = ArchXviiComponents,
        cols = [(Pa, pa), (Pb, pb), (Pc, pc), (Pd, pd), (Pe, pe), (Pf, pf), (Pg, pg), (Ph, ph), (Pi, pi),
                (Pj, pj), (Pk, pk), (Pl, pl), (Pm, pm), (Pn, pn), (Po, po), (Pp, pp), (Pq, pq)]);
    #[cfg(feature = "c32")]
    crate::arch_adapter!(world = WMain, adapter = AdXxxii, arch = ArchXxxii, field = arch_xxxii, comps = ArchXxxiiComponents,
        cols = [(Pa, pa), (Pb, pb), (Pc, pc), (Pd, pd), (Pe, pe), (Pf, pf), (Pg, pg), (Ph, ph), (Pi, pi),
                (Pj, pj), (Pk, pk), (Pl, pl), (Pm, pm), (Pn, pn), (Po, po), (Pp, pp), (Pq, pq), (Pr, pr),
                (Ps, ps), (Pt, pt), (Pu, pu), (Pv, pv), (Pw, pw), (Px, px),
                (Ha, ha), (Hb, hb), (Bn, bn), (Wt, wt), (Ls, ls), (Za, za), (Zb, zb), (Zn, zn)]);

    /// index of the archetype that the workloads never populate
    pub const NEVER_POPULATED: &str = "ArchEmpty";

    impl WorldOps for WMain {
        const NAME: &'static str = "WMain";

        fn archs() -> Vec<&'static dyn Arch<Self>> {
            let mut v: Vec<&'static dyn Arch<Self>> = vec![&AdOne, &AdTwo, &AdHeap, &AdAlign];
            #[cfg(feature = "c32")]
            {
                v.push(&AdXvii);
                v.push(&AdXxxii);
            }
            v.push(&AdWide);
            v.push(&AdTwin);
            v.push(&AdEmpty);
            v
        }

        fn num_archetypes() -> usize {
            <WMain as World>::NUM_ARCHETYPES
        }

        fn build(caps: &[usize], ctor: usize) -> Self {
            match ctor {
                1 => WMain::new(),
                2 => WMain::default(),
                _ => {
                    let mut i = 0usize;
                    let mut next = || {
                        i += 1;
                        caps[i - 1]
                    };
                    WMain::with_capacity(WMainCapacity {
                        arch_one: next(),
                        arch_two: next(),
                        arch_heap: next(),
                        arch_align: next(),
                        #[cfg(feature = "c32")]
                        arch_xvii: next(),
                        #[cfg(feature = "c32")]
                        arch_xxxii: next(),
                        arch_wide: next(),
                        arch_twin: next(),
                        arch_empty: next(),
                    })
                }
            }
        }

        fn queries() -> Vec<QueryInfo> {
            vec![
                QueryInfo { name: "all", required: vec![], one_of: vec![] },
                QueryInfo { name: "Pa", required: vec!["Pa"], one_of: vec![] },
                QueryInfo { name: "Pb+Za", required: vec!["Pb", "Za"], one_of: vec![] },
                QueryInfo { name: "OneOf<Hc,Pd>", required: vec![], one_of: vec!["Hc", "Pd"] },
                QueryInfo { name: "Ls(wild handles)", required: vec!["Ls"], one_of: vec![] },
                QueryInfo { name: "Hb+OneOf<Hc,Wt>", required: vec!["Hb"], one_of: vec!["Hc", "Wt"] },
            ]
        }

        #[allow(unused_variables, unused_mut)]
        fn run_query(w: &mut Self, q: usize, mode: usize, f: &mut dyn FnMut(&Visit) -> Step) {
            match q {
                0 => run3!(w, mode, f, [e, d], |e: &EntityAny, d: &EntityDirectAny|),
                1 => run3!(w, mode, f, [e, d, pa], |e: &EntityAny, d: &EntityDirectAny, pa: &Pa|),
                2 => run3!(w, mode, f, [e, d, pb, za], |e: &EntityAny, d: &EntityDirectAny, pb: &Pb, za: &Za|),
                3 => run3!(w, mode, f, [e, d, x], |e: &EntityAny, d: &EntityDirectAny, x: &OneOf<Hc, Pd>|),
                4 => run3!(w, mode, f, [e, d, ls], |e: &Entity<_>, d: &EntityDirect<_>, ls: &Ls|),
                5 => run3!(w, mode, f, [e, d, hb, y], |e: &EntityAny, d: &EntityDirect<_>, hb: &Hb, y: &OneOf<Hc, Wt>|),
                _ => unreachable!(),
            }
        }

        #[cfg(feature = "events")]
        fn world_events(w: &Self) -> Option<(HintedItems, HintedItems)> {
            Some((hinted(w.iter_created()), hinted(w.iter_destroyed())))
        }
        #[cfg(not(feature = "events"))]
        fn world_events(_w: &Self) -> Option<(HintedItems, HintedItems)> {
            None
        }
        #[cfg(feature = "events")]
        fn clear_events(w: &mut Self) {
            World::clear_events(w)
        }
        #[cfg(not(feature = "events"))]
        fn clear_events(_w: &mut Self) {}
    }
}

pub mod wsmall {
    use super::*;
    use crate::payload::*;
    use gecs::prelude::*;

    ecs_world! {
        #[archetype_id(3)]
        ecs_archetype!(SmA, Pa, Ha);
        ecs_archetype!(SmB, #[component_id(9)] Ha, Pb);
    }

    crate::arch_adapter!(world = EcsWorld, adapter = AdSmA, arch = SmA, field = sm_a, comps = SmAComponents,
        cols = [(Pa, pa), (Ha, ha)]);
    crate::arch_adapter!(world = EcsWorld, adapter = AdSmB, arch = SmB, field = sm_b, comps = SmBComponents,
        cols = [(Ha, ha), (Pb, pb)]);

    impl WorldOps for EcsWorld {
        const NAME: &'static str = "WSmall";

        fn archs() -> Vec<&'static dyn Arch<Self>> {
            vec![&AdSmA, &AdSmB]
        }
        fn num_archetypes() -> usize {
            <EcsWorld as World>::NUM_ARCHETYPES
        }
        fn build(caps: &[usize], ctor: usize) -> Self {
            match ctor {
                1 => EcsWorld::new(),
                2 => EcsWorld::default(),
                _ => EcsWorld::with_capacity(EcsWorldCapacity { sm_a: caps[0], sm_b: caps[1] }),
            }
        }
        fn queries() -> Vec<QueryInfo> {
            vec![
                QueryInfo { name: "all", required: vec![], one_of: vec![] },
                QueryInfo { name: "Ha", required: vec!["Ha"], one_of: vec![] },
                QueryInfo { name: "OneOf<Pa,Pb>", required: vec![], one_of: vec!["Pa", "Pb"] },
            ]
        }
        #[allow(unused_variables, unused_mut)]
        fn run_query(w: &mut Self, q: usize, mode: usize, f: &mut dyn FnMut(&Visit) -> Step) {
            match q {
                0 => run3!(w, mode, f, [e, d], |e: &EntityAny, d: &EntityDirectAny|),
                1 => run3!(w, mode, f, [e, d, ha], |e: &Entity<_>, d: &EntityDirectAny, ha: &Ha|),
                2 => run3!(w, mode, f, [e, d, x], |e: &EntityAny, d: &EntityDirect<_>, x: &OneOf<Pa, Pb>|),
                _ => unreachable!(),
            }
        }
        #[cfg(feature = "events")]
        fn world_events(w: &Self) -> Option<(HintedItems, HintedItems)> {
            Some((hinted(w.iter_created()), hinted(w.iter_destroyed())))
        }
        #[cfg(not(feature = "events"))]
        fn world_events(_w: &Self) -> Option<(HintedItems, HintedItems)> {
            None
        }
        #[cfg(feature = "events")]
        fn clear_events(w: &mut Self) {
            World::clear_events(w)
        }
        #[cfg(not(feature = "events"))]
        fn clear_events(_w: &mut Self) {}
    }
}
