#![forbid(unsafe_code)]
#![allow(clippy::all)]
#![allow(dead_code)]
//! gecs-vh: history / differential harness for recatek/gecs (engine E1 of /verif/DESIGN.md).
//!
//! usage: gecs-vh <workload> [key=value ...]
//!   common keys: seed=<u64> shard=<u64> ops=<n> world=main|small small=0|1 verbose=0|1
//! A run is fully determined by its argv. Exit codes: 0 held, 3 violation (one JSON line
//! with "violation" != null on stdout), 4 usage error.

mod adapter;
mod big;
mod borrowmx;
mod convert;
mod engine;
mod faults;
mod forge;
mod guard;
mod history;
mod lean;
mod iterdestroy;
mod model;
mod ops;
mod overflow;
mod payload;
mod probe;
mod report;
mod rng;
mod worlds;

#[global_allocator]
static ALLOC: valloc::Counting = valloc::Counting;

use std::collections::BTreeMap;

pub struct Args {
    pub workload: String,
    pub kv: BTreeMap<String, String>,
}
impl Args {
    pub fn u(&self, k: &str, default: u64) -> u64 {
        self.kv.get(k).map(|v| v.parse().expect("bad integer argument")).unwrap_or(default)
    }
    pub fn s(&self, k: &str, default: &str) -> String {
        self.kv.get(k).cloned().unwrap_or_else(|| default.to_string())
    }
}

fn main() -> std::process::ExitCode {
    let argv: Vec<String> = std::env::args().collect();
    if argv.len() < 2 {
        eprintln!("usage: gecs-vh <workload> [key=value ...]");
        std::process::exit(4);
    }
    let mut kv = BTreeMap::new();
    for a in argv[2..].iter() {
        match a.split_once('=') {
            Some((k, v)) => {
                kv.insert(k.to_string(), v.to_string());
            }
            None => {
                eprintln!("bad argument {a}");
                std::process::exit(4);
            }
        }
    }
    let args = Args { workload: argv[1].clone(), kv };
    guard::install_hook(args.u("verbose", 0) == 1);
    let seed = args.u("seed", 1);
    let shard = args.u("shard", 0);
    let ops = args.u("ops", 1000) as usize;
    let small = args.u("small", 0) == 1;
    let world = args.s("world", "main");

    if args.workload == "noop" {
        println!("{{\"workload\":\"noop\",\"argv\":[],\"steps\":0,\"counters\":{{}},\"distinct\":{{}},\"samples\":[],\"violation\":null}}");
        return std::process::ExitCode::SUCCESS;
    }
    let rep = if let Some(mut prof) = history::profile(&args.workload) {
        if let Some(v) = args.kv.get("full_every") {
            prof.full_every = v.parse().unwrap();
        }
        if let Some(v) = args.kv.get("max_pop") {
            prof.max_pop = v.parse().unwrap();
        }
        for (k, f) in [("sample", 0usize), ("api_subset", 1), ("iter_every", 2), ("inv_all", 3)] {
            if let Some(v) = args.kv.get(k) {
                let v: usize = v.parse().unwrap();
                match f {
                    0 => prof.sample = v,
                    1 => prof.api_subset = v,
                    2 => prof.iter_every = v,
                    _ => prof.inv_all = v == 1,
                }
            }
        }
        if args.u("noalloc", 0) == 1 {
            prof.track_alloc = false;
        }
        let out = match world.as_str() {
            "main" => history::run_history::<worlds::wmain::WMain>(seed, shard, ops, prof, small),
            "small" => history::run_history::<worlds::wsmall::EcsWorld>(seed, shard, ops, prof, small),
            _ => {
                eprintln!("unknown world");
                std::process::exit(4);
            }
        };
        out.rep
    } else if args.workload == "borrow" {
        borrowmx::run_borrow(seed, shard, args.u("nshards", 1), ops)
    } else if args.workload == "convert" {
        convert::run_convert(seed, shard, ops, small)
    } else if args.workload == "iterdestroy-exhaustive" {
        iterdestroy::run_iterdestroy_exhaustive::<worlds::wsmall::EcsWorld>(seed, shard, args.u("nshards", 1), args.u("nmax", 4) as usize, small)
    } else if args.workload == "bigcap" {
        big::run_bigcap(args.u("mode", 0))
    } else if args.workload == "realoverflow" {
        big::run_realoverflow()
    } else if args.workload == "lean" {
        lean::run_lean(seed, shard, ops)
    } else if args.workload == "forge" {
        match world.as_str() {
            "main" => forge::run_forge::<worlds::wmain::WMain>(seed, shard, ops, small),
            _ => forge::run_forge::<worlds::wsmall::EcsWorld>(seed, shard, ops, small),
        }
    } else if args.workload == "overflow" {
        match world.as_str() {
            "main" => overflow::run_overflow::<worlds::wmain::WMain>(seed, shard, ops, small),
            _ => overflow::run_overflow::<worlds::wsmall::EcsWorld>(seed, shard, ops, small),
        }
    } else {
        eprintln!("unknown workload {}", args.workload);
        std::process::exit(4);
    };
    let failed = rep.failed();
    println!("{}", rep.to_json(&args.workload, &argv[1..].to_vec()));
    // return normally (no process::exit) so that Miri's and LSan's leak checks run
    drop(rep);
    std::process::ExitCode::from(if failed { 3 } else { 0 })
}
