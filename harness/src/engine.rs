//! History engine: generates operations, applies them to the real world(s) and to the
//! model in lock-step, and runs the oracles after every step.

use crate::adapter::*;
use crate::guard::{guard, Caught};
use crate::model::*;
use crate::payload::{with_reg, FaultKind};
use crate::report::{fnv, Report, FNV0};
use crate::rng::Rng;
use crate::worlds::*;
use gecs::prelude::{EntityAny, EntityDirectAny};

pub const FREE_BIT: u32 = 1 << 31;
pub const FREE_END: u32 = u32::MAX;
pub const MAX_CAP: usize = 1 << 24;

#[derive(Clone, Debug)]
pub struct Profile {
    pub name: &'static str,
    pub w_create: u32,
    pub w_within: u32,
    pub w_destroy: u32,
    pub w_destroy_stale: u32,
    pub w_iter_destroy: u32,
    pub w_write: u32,
    pub w_clone: u32,
    pub w_drop_world: u32,
    pub w_clear_events: u32,
    pub w_hot_slot: u32,
    pub w_drain_refill: u32,
    pub w_break: u32,
    pub w_fault: u32,
    pub max_pop: usize,
    pub max_worlds: usize,
    /// full probe (all handles, all paths) every n steps; sampled probes otherwise
    pub full_every: usize,
    pub sample: usize,
    pub iter_every: usize,
    pub forge_per_step: usize,
    pub track_alloc: bool,
    /// lookup APIs tried per probed handle and key kind (all of them unless reduced for Miri)
    pub api_subset: usize,
    /// walk the invariants of every archetype after each step (else: two random ones)
    pub inv_all: bool,
}

impl Profile {
    pub fn base(name: &'static str) -> Profile {
        Profile {
            name,
            w_create: 35,
            w_within: 10,
            w_destroy: 30,
            w_destroy_stale: 4,
            w_iter_destroy: 5,
            w_write: 15,
            w_clone: 2,
            w_drop_world: 1,
            w_clear_events: 2,
            w_hot_slot: 1,
            w_drain_refill: 1,
            w_break: 2,
            w_fault: 0,
            max_pop: 24,
            max_worlds: 3,
            full_every: 16,
            sample: 6,
            iter_every: 4,
            forge_per_step: 0,
            track_alloc: true,
            api_subset: N_LOOKUPS,
            inv_all: true,
        }
    }
}

pub struct Slot<W> {
    pub w: W,
    pub m: MWorld,
}

pub struct Engine<W: WorldOps> {
    pub archs: Vec<&'static dyn Arch<W>>,
    pub cols: Vec<Vec<ColInfo>>,
    pub queries: Vec<QueryInfo>,
    /// per query: which archetypes match, and for each the column index of every cell
    pub qmatch: Vec<Vec<Option<Vec<usize>>>>,
    pub worlds: Vec<Option<Slot<W>>>,
    pub next_world_id: usize,
    pub rng: Rng,
    pub rep: Report,
    pub prof: Profile,
    pub digest: u64,
    pub phase: usize,
    pub phase_left: usize,
    /// tokens that a caught panic legitimately leaked (never dropped, never reused)
    pub leaked: std::collections::BTreeSet<u64>,
    pub zst_leaked: [i64; 4],
    pub wrapping: bool,
    pub events: bool,
    pub never_populate: Option<usize>,
}

pub fn expected_match(cols: &[ColInfo], q: &QueryInfo) -> Option<Vec<usize>> {
    let mut idx = Vec::new();
    for r in q.required.iter() {
        idx.push(cols.iter().position(|c| c.name == *r)?);
    }
    if !q.one_of.is_empty() {
        let present: Vec<usize> = q.one_of.iter().filter_map(|o| cols.iter().position(|c| c.name == *o)).collect();
        if present.len() != 1 {
            return None;
        }
        idx.push(present[0]);
    }
    Some(idx)
}

pub fn raw_fmt(e: EntityAny) -> String {
    let (k, v) = e.raw();
    format!("(id{} pos{} gen{})", k & 0xFF, k >> 8, v)
}

impl<W: WorldOps> Engine<W> {
    pub fn new(seed: u64, stream: u64, prof: Profile) -> Self {
        let archs = W::archs();
        let cols: Vec<Vec<ColInfo>> = archs.iter().map(|a| a.cols()).collect();
        let queries = W::queries();
        let qmatch = queries.iter().map(|q| cols.iter().map(|c| expected_match(c, q)).collect()).collect();
        let never_populate = archs.iter().position(|a| a.name() == "ArchEmpty");
        let mut rep = Report::new();
        rep.add("world_type_archetypes", archs.len() as u64);
        Engine {
            archs,
            cols,
            queries,
            qmatch,
            worlds: Vec::new(),
            next_world_id: 0,
            rng: Rng::new(seed, stream),
            rep,
            prof,
            digest: FNV0,
            phase: 0,
            phase_left: 0,
            leaked: Default::default(),
            zst_leaked: [0; 4],
            wrapping: cfg!(feature = "wrapping_version"),
            events: cfg!(feature = "events"),
            never_populate,
        }
    }

    pub fn dig(&mut self, x: u64) {
        self.digest = fnv(self.digest, x);
    }

    /// Records a violation; context tags are added for clone lineages and post-fault states.
    pub fn viol(&mut self, wi: Option<usize>, tags: &[&'static str], oracle: &str, detail: String) {
        let mut t: Vec<&'static str> = tags.to_vec();
        if let Some(wi) = wi {
            if let Some(Some(s)) = self.worlds.get(wi) {
                if s.m.clone_lineage && !t.contains(&"C13") {
                    t.push("C13");
                }
                if s.m.faulted && !t.contains(&"C10") {
                    t.push("C10");
                }
            }
        }
        if self.events && !t.contains(&"C17") && oracle.starts_with("events") {
            t.push("C17");
        }
        self.rep.violate(&t, oracle, detail);
    }

    /// A panic that unwound out of gecs during an operation on legitimate inputs.
    pub fn unexpected_panic(&mut self, wi: Option<usize>, what: &str, c: &Caught) {
        self.viol(wi, &["ANY", "internal-assert"], "unexpected-panic", format!("{what}: {}", c.msg()));
    }

    pub fn slot(&mut self, wi: usize) -> &mut Slot<W> {
        self.worlds[wi].as_mut().expect("world slot empty")
    }
    pub fn sl(&self, wi: usize) -> &Slot<W> {
        self.worlds[wi].as_ref().expect("world slot empty")
    }
    pub fn live_worlds(&self) -> Vec<usize> {
        (0..self.worlds.len()).filter(|i| self.worlds[*i].is_some()).collect()
    }

    // ---- world construction --------------------------------------------------------------

    pub fn pick_capacity(&mut self) -> usize {
        const CAPS: [usize; 12] = [0, 0, 1, 2, 3, 4, 5, 7, 8, 13, 32, 64];
        *self.rng.pick(&CAPS)
    }

    pub fn new_world(&mut self) -> usize {
        let n = self.archs.len();
        let ctor = self.rng.below(4);
        let caps: Vec<usize> = if ctor == 1 || ctor == 2 { vec![0; n] } else { (0..n).map(|_| self.pick_capacity()).collect() };
        self.new_world_with(&caps, if ctor == 1 || ctor == 2 { ctor } else { 0 })
    }

    pub fn new_world_with(&mut self, caps: &[usize], ctor: usize) -> usize {
        self.rep.log_op(format!("new_world ctor={ctor} caps={caps:?}"));
        let n = self.archs.len();
        let before = valloc::counts();
        let w = match guard(|| W::build(caps, ctor)) {
            Ok(w) => w,
            Err(c) => {
                self.unexpected_panic(None, "world construction", &c);
                return usize::MAX;
            }
        };
        let after = valloc::counts();
        if caps.iter().all(|c| *c == 0) && after.allocs != before.allocs {
            self.viol(None, &["C12"], "alloc-window", "a world with all capacities 0 allocated at construction".into());
        }
        let id = self.next_world_id;
        self.next_world_id += 1;
        let mut m = MWorld::new(n, id);
        for (ai, a) in self.archs.iter().enumerate() {
            let cap = a.capacity(&w);
            if cap < caps[ai] {
                self.rep.violate(&["C12"], "with-capacity", format!("{}: capacity() {} < requested {}", a.name(), cap, caps[ai]));
            }
            m.archs[ai].cap_seen = cap;
            m.archs[ai].version_base = (0, 1);
        }
        self.rep.count("worlds_built");
        let slot = Slot { w, m };
        if let Some(i) = self.worlds.iter().position(|s| s.is_none()) {
            self.worlds[i] = Some(slot);
            i
        } else {
            self.worlds.push(Some(slot));
            self.worlds.len() - 1
        }
    }

    // ---- rows ----------------------------------------------------------------------------

    pub fn fresh_row(&mut self, ai: usize) -> Row {
        let mut row = Vec::with_capacity(self.cols[ai].len());
        for c in self.cols[ai].iter() {
            if c.zst {
                row.push((0, 0));
            } else {
                let t = with_reg(|r| r.new_token());
                let v = self.rng.next() & c.mask;
                row.push((t, v));
            }
        }
        row
    }

    fn tokens_dropped(&mut self, wi: Option<usize>, row: &Row, what: &str) {
        for cell in row.iter() {
            if cell.0 != 0 && with_reg(|r| r.is_live(cell.0)) {
                self.viol(wi, &["C04"], "registry-leak", format!("{what}: component token {} was not dropped", cell.0));
            }
        }
    }
    fn tokens_live(&mut self, wi: Option<usize>, row: &Row, what: &str) {
        for cell in row.iter() {
            if cell.0 != 0 && !with_reg(|r| r.is_live(cell.0)) {
                self.viol(wi, &["C04"], "registry-early-drop", format!("{what}: component token {} of a live entity was dropped", cell.0));
            }
        }
    }

    pub fn drain_registry_errors(&mut self, wi: Option<usize>) {
        let errs: Vec<String> = with_reg(|r| std::mem::take(&mut r.errors));
        for e in errs {
            self.viol(wi, &["C04"], "registry", e);
        }
    }

    // ---- create --------------------------------------------------------------------------

    pub fn op_create(&mut self, wi: usize, ai: usize, path: usize) -> Option<usize> {
        let row = self.fresh_row(ai);
        let a = self.archs[ai];
        let (len0, cap0) = {
            let s = self.slot(wi);
            (a.len(&s.w), a.capacity(&s.w))
        };
        let wid = self.slot(wi).m.id;
        self.rep.log_op(format!("w{wid} create arch={} path={} len={len0} cap={cap0}", a.name(), CREATE_NAMES[path]));
        self.rep.count(&format!("op.create.{}", CREATE_NAMES[path]));
        let within = path == CR_W_WITHIN || path == CR_A_WITHIN;
        let res = {
            let s = self.worlds[wi].as_mut().unwrap();
            guard(|| a.create(&mut s.w, path, &row))
        };
        let (out, alloc_calls) = match res {
            Ok(o) => o,
            Err(c) => {
                // an implementation may advance the archetype version on creation too; its
                // overflow panic is then as documented as the one in destroy
                let at_limit = !self.wrapping && a.dump(&self.sl(wi).w).version == u32::MAX;
                if at_limit && c.contains("version overflow") {
                    self.rep.count("overflow.panic.in_create");
                    for c in row.iter() {
                        if c.0 != 0 && with_reg(|r| r.is_live(c.0)) {
                            self.leaked.insert(c.0);
                        }
                    }
                    self.after_fault(wi, &[], "version overflow panic in create");
                    if a.len(&self.sl(wi).w) != len0 {
                        self.viol(Some(wi), &["C10", "C12"], "len", format!("{}: len changed by a create that panicked", a.name()));
                    }
                } else {
                    self.unexpected_panic(Some(wi), "create", &c);
                }
                return None;
            }
        };
        let (len1, cap1) = {
            let s = self.slot(wi);
            (a.len(&s.w), a.capacity(&s.w))
        };
        match out {
            CreateOut::Created(h) => {
                if within && len0 >= cap0 {
                    self.viol(Some(wi), &["C12"], "within-capacity", format!("{}: create_within_capacity succeeded at len {len0} == capacity {cap0}", a.name()));
                }
                if len1 != len0 + 1 {
                    self.viol(Some(wi), &["C12"], "len", format!("{}: len {len0} -> {len1} after a successful create", a.name()));
                }
                if cap1 < cap0 || cap1 < len1 {
                    self.viol(Some(wi), &["C12"], "capacity", format!("{}: capacity {cap0} -> {cap1} with len {len1}", a.name()));
                }
                if len0 < cap0 {
                    if cap1 != cap0 {
                        self.viol(Some(wi), &["C12"], "capacity", format!("{}: capacity changed {cap0} -> {cap1} on create below capacity", a.name()));
                    }
                    if self.prof.track_alloc && !self.events && alloc_calls != 0 {
                        self.viol(Some(wi), &["C12"], "alloc-window", format!("{}: create at len {len0} < capacity {cap0} called the allocator", a.name()));
                    }
                    self.rep.count("alloc_windows_checked");
                } else {
                    self.rep.count("growth_steps");
                    if self.slot(wi).m.archs[ai].removals > 0 {
                        self.rep.count("growth_after_churn");
                    }
                }
                if h.archetype_id() != a.id() {
                    self.viol(Some(wi), &["C14", "C15", "C08"], "handle-id", format!("{}: created handle {} carries archetype id {} != {}", a.name(), raw_fmt(h), h.archetype_id(), a.id()));
                }
                // C08: never issued before in this world (modulo the documented wrap exception)
                let prior = self.slot(wi).m.issued.get(&h.raw()).copied();
                if let Some(prev) = prior {
                    let pos = h.raw().0 >> 8;
                    let s = self.slot(wi);
                    let rel_now = s.m.archs[ai].pos_releases.get(&pos).copied().unwrap_or(0);
                    let rel_then = s.m.ents[prev].pos_releases_at_issue;
                    let same_arch = s.m.ents[prev].arch == ai;
                    let excused = self.wrapping && same_arch && rel_now - rel_then >= (u32::MAX as u64);
                    if !excused {
                        self.viol(Some(wi), &["C08", "C01"], "reissued-handle", format!("{}: create returned {} which was already issued (uid {prev}; position released {} times in between)", a.name(), raw_fmt(h), rel_now - rel_then));
                    } else {
                        self.rep.count("reissue_after_full_wrap");
                    }
                }
                self.dig(h.raw().0 as u64 | (h.raw().1 as u64) << 32);
                self.dig(cap1 as u64);
                self.rep.maxi("max_generation_seen", h.raw().1 as u64);
                let step = self.rep.step;
                let s = self.slot(wi);
                s.m.archs[ai].cap_seen = cap1;
                let uid = s.m.insert(ai, h, row, step);
                self.rep.count("handles_issued");
                Some(uid)
            }
            CreateOut::Full(back) => {
                if !within {
                    self.viol(Some(wi), &["C12"], "create", format!("{}: create() refused", a.name()));
                }
                if len0 < cap0 {
                    self.viol(Some(wi), &["C12"], "within-capacity", format!("{}: create_within_capacity failed at len {len0} < capacity {cap0} (a freed position is not reusable)", a.name()));
                }
                if len1 != len0 || cap1 != cap0 {
                    self.viol(Some(wi), &["C12"], "within-capacity", format!("{}: failed create_within_capacity changed len/capacity {len0}/{cap0} -> {len1}/{cap1}", a.name()));
                }
                if back != row {
                    self.viol(Some(wi), &["C12", "C04"], "within-capacity", format!("{}: Err() did not carry the argument's components: {:?} vs {:?}", a.name(), back, row));
                }
                if self.prof.track_alloc && alloc_calls != 0 {
                    self.viol(Some(wi), &["C12"], "alloc-window", format!("{}: failed create_within_capacity called the allocator", a.name()));
                }
                self.tokens_dropped(Some(wi), &row, "components returned by failed create_within_capacity and dropped by the caller");
                self.rep.count("within_capacity_refused");
                None
            }
        }
    }

    // ---- destroy -------------------------------------------------------------------------

    pub fn op_destroy(&mut self, wi: usize, uid: usize, level: usize, kind: usize) {
        let (ai, handle, alive) = {
            let e = &self.slot(wi).m.ents[uid];
            (e.arch, e.handle, e.alive)
        };
        let a = self.archs[ai];
        let wid = self.slot(wi).m.id;
        // a direct key is obtained the way a user would: to_direct right before the call
        let key = if kind < 2 {
            Key::slot(kind, handle)
        } else {
            let s = self.worlds[wi].as_mut().unwrap();
            match guard(|| a.lookup(&mut s.w, LK_A_TO_DIRECT, Key::Typed(handle, false))) {
                Ok(Some(f)) => Key::direct(kind, f.direct.unwrap()),
                Ok(None) => {
                    if alive {
                        self.viol(Some(wi), &["C01"], "lookup", format!("{}: to_direct rejected live handle {}", a.name(), raw_fmt(handle)));
                    }
                    return;
                }
                Err(c) => {
                    self.unexpected_panic(Some(wi), "to_direct", &c);
                    return;
                }
            }
        };
        self.rep.log_op(format!("w{wid} destroy arch={} uid={uid} {} level={} key={} alive={alive}", a.name(), raw_fmt(handle), DESTROY_NAMES[level], KEY_KINDS[kind]));
        self.rep.count(&format!("op.destroy.{}.{}", DESTROY_NAMES[level], KEY_KINDS[kind]));
        let len0 = a.len(&self.slot(wi).w);
        let row = self.slot(wi).m.ents[uid].row.clone();
        let expect_overflow = alive && self.expect_version_overflow(wi, uid);
        let res = {
            let s = self.worlds[wi].as_mut().unwrap();
            guard(|| a.destroy(&mut s.w, level, key))
        };
        let out = match res {
            Ok(o) => o,
            Err(c) => {
                if expect_overflow && c.contains("version overflow") {
                    self.rep.count(if c.contains("slot version") { "overflow.panic.slot" } else { "overflow.panic.arch" });
                    self.after_fault(wi, &[uid], "version overflow panic in destroy");
                } else {
                    self.unexpected_panic(Some(wi), "destroy", &c);
                }
                return;
            }
        };
        let len1 = a.len(&self.slot(wi).w);
        if expect_overflow {
            if let DestroyOut::Destroyed(_) = out {
                self.viol(Some(wi), &["C08"], "overflow-no-panic", format!("{}: destroying {} needed a generation counter beyond u32::MAX but did not panic", a.name(), raw_fmt(handle)));
                return;
            }
        }
        match out {
            DestroyOut::Destroyed(back) => {
                if !alive {
                    self.viol(Some(wi), &["C01"], "destroy-stale", format!("{}: destroy accepted stale handle {} ({})", a.name(), raw_fmt(handle), KEY_KINDS[kind]));
                    return;
                }
                if len1 + 1 != len0 {
                    self.viol(Some(wi), &["C12"], "len", format!("{}: len {len0} -> {len1} after destroy", a.name()));
                }
                if let Some(back) = back {
                    if back != row {
                        self.viol(Some(wi), &["C02", "C04"], "destroy-return", format!("{}: destroy({}) returned {:?}, expected {:?}", a.name(), raw_fmt(handle), back, row));
                    }
                    self.rep.count("read.destroy-return");
                }
                let step = self.rep.step;
                self.slot(wi).m.remove(uid, step);
                self.tokens_dropped(Some(wi), &row, "components of a destroyed entity");
                self.dig(0xD0 ^ handle.raw().0 as u64);
                self.rep.count("destroyed");
            }
            DestroyOut::Absent => {
                if alive {
                    self.viol(Some(wi), &["C01"], "destroy-live", format!("{}: destroy rejected live handle {} ({}, {})", a.name(), raw_fmt(handle), DESTROY_NAMES[level], KEY_KINDS[kind]));
                    return;
                }
                if len1 != len0 {
                    self.viol(Some(wi), &["C01", "C12"], "destroy-stale", format!("{}: rejected destroy changed len {len0} -> {len1}", a.name()));
                }
                self.rep.count("destroy_stale_rejected");
            }
        }
    }

    // ---- generation counters near overflow -------------------------------------------------

    /// The archetype version the model expects (u64, no wrap): preset + removals since.
    pub fn model_arch_version(&self, wi: usize, ai: usize) -> u64 {
        let m = &self.sl(wi).m.archs[ai];
        m.version_base.1 as u64 + (m.removals - m.version_base.0)
    }

    /// In the default configuration: would destroying `uid` push a counter past u32::MAX?
    pub fn expect_version_overflow(&self, wi: usize, uid: usize) -> bool {
        if self.wrapping {
            return false;
        }
        let e = &self.sl(wi).m.ents[uid];
        e.handle.raw().1 == u32::MAX || self.model_arch_version(wi, e.arch) >= u32::MAX as u64
    }

    /// After a caught panic: the world is marked, and each involved entity must be fully
    /// present or fully absent; the model follows what `contains` says and the probes that
    /// run next demand all-or-nothing on every path and column.
    pub fn after_fault(&mut self, wi: usize, uids: &[usize], what: &str) {
        self.rep.count("faults_survived");
        self.slot(wi).m.faulted = true;
        for uid in uids.iter().copied() {
            let (ai, handle, alive) = {
                let e = &self.sl(wi).m.ents[uid];
                (e.arch, e.handle, e.alive)
            };
            if !alive {
                continue;
            }
            let a = self.archs[ai];
            let res = {
                let s = self.worlds[wi].as_mut().unwrap();
                guard(|| a.lookup(&mut s.w, LK_A_CONTAINS, Key::Typed(handle, false)))
            };
            match res {
                Ok(Some(_)) => self.rep.count("fault.entity_present_after"),
                Ok(None) => {
                    self.rep.count("fault.entity_absent_after");
                    let row = self.sl(wi).m.ents[uid].row.clone();
                    for c in row.iter() {
                        if c.0 != 0 && with_reg(|r| r.is_live(c.0)) {
                            self.leaked.insert(c.0);
                        }
                    }
                    let step = self.rep.step;
                    self.slot(wi).m.remove(uid, step);
                }
                Err(c) => self.viol(Some(wi), &["C10"], "after-fault", format!("{what}: contains() panicked afterwards: {}", c.msg())),
            }
        }
    }

    /// Hook H2: presets generation counters of an EMPTY archetype to a reachable combination
    /// (archetype version - 1 == sum of (slot version - 1)).
    pub fn preset_versions(&mut self, wi: usize, ai: usize, slots: &[(usize, u32)]) {
        let a = self.archs[ai];
        let arch_version: u64 = 1 + slots.iter().map(|(_, v)| *v as u64 - 1).sum::<u64>();
        assert!(arch_version <= u32::MAX as u64, "unreachable preset");
        self.rep.log_op(format!("w{} preset arch={} slots={:?} arch_version={arch_version}", self.sl(wi).m.id, a.name(), slots));
        {
            let s = self.worlds[wi].as_mut().unwrap();
            a.preset_versions(&mut s.w, slots, arch_version as u32);
        }
        let m = &mut self.slot(wi).m.archs[ai];
        assert!(m.live.is_empty());
        m.version_base = (m.removals, arch_version as u32);
        for (p, v) in slots.iter() {
            // a real history would have released the position v - 1 times to get here
            *m.pos_releases.entry(*p as u32).or_insert(0) += *v as u64 - 1;
        }
        self.rep.count("presets");
    }

    // ---- representation invariants (oracle I, hook H1) -----------------------------------

    pub fn check_invariants(&mut self, wi: usize, ai: usize) {
        let a = self.archs[ai];
        let (d, len, cap, empty) = {
            let s = self.slot(wi);
            (a.dump(&s.w), a.len(&s.w), a.capacity(&s.w), a.is_empty(&s.w))
        };
        self.rep.count("invariant_walks");
        let name = a.name();
        let mlive = self.slot(wi).m.archs[ai].live.len();
        let mut errs: Vec<(&'static [&'static str], String)> = Vec::new();
        if len != mlive {
            errs.push((&["C12"], format!("len() {len} != {mlive} live entities")));
        }
        if empty != (mlive == 0) {
            errs.push((&["C12"], format!("is_empty() {empty} with {mlive} live entities")));
        }
        if d.len != len || d.capacity != cap {
            errs.push((&["C12"], format!("dump len/cap {}/{} != API {len}/{cap}", d.len, d.capacity)));
        }
        if !(len <= cap && cap <= MAX_CAP) {
            errs.push((&["C12"], format!("len {len} capacity {cap} out of order")));
        }
        let cap_seen = self.slot(wi).m.archs[ai].cap_seen;
        if cap < cap_seen {
            errs.push((&["C12"], format!("capacity decreased {cap_seen} -> {cap}")));
        }
        if d.slots.len() != d.capacity || d.entities.len() != d.len {
            errs.push((&["C12"], "dump array sizes disagree with len/capacity".into()));
        } else {
            let mut live_slots = 0usize;
            for (i, (key, ver)) in d.entities.iter().enumerate() {
                let pos = (key >> 8) as usize;
                if (key & 0xFF) as u8 != a.id() {
                    errs.push((&["C01", "C14"], format!("dense[{i}] carries archetype id {}", key & 0xFF)));
                }
                if pos >= d.capacity {
                    errs.push((&["C01"], format!("dense[{i}] points to slot {pos} >= capacity {}", d.capacity)));
                    continue;
                }
                let (sidx, sver) = d.slots[pos];
                if sidx & FREE_BIT != 0 {
                    errs.push((&["C01"], format!("dense[{i}] points to free slot {pos}")));
                } else if sidx as usize != i {
                    errs.push((&["C01"], format!("slot {pos} points to dense {sidx}, but dense[{i}] points back to it")));
                }
                if sver != *ver || *ver == 0 {
                    errs.push((&["C01"], format!("dense[{i}] generation {ver} != slot {pos} generation {sver}")));
                }
            }
            for (sidx, sver) in d.slots.iter() {
                if sidx & FREE_BIT == 0 {
                    live_slots += 1;
                }
                if *sver == 0 {
                    errs.push((&["C01"], "slot with generation 0".into()));
                }
            }
            if live_slots != d.len {
                errs.push((&["C01", "C12"], format!("{live_slots} live slots but len {}", d.len)));
            }
            // free list: exactly capacity - len distinct free slots, then the end marker
            let mut seen = vec![false; d.capacity];
            let mut head = d.free_head;
            let mut n = 0usize;
            loop {
                if head == FREE_END {
                    break;
                }
                if head & FREE_BIT == 0 {
                    errs.push((&["C12"], format!("free list link {head:#x} lacks the free bit")));
                    break;
                }
                let pos = (head & !FREE_BIT) as usize;
                if pos >= d.capacity {
                    errs.push((&["C12"], format!("free list leaves the slot array at {pos}")));
                    break;
                }
                if seen[pos] {
                    errs.push((&["C12"], format!("free list visits slot {pos} twice (cycle)")));
                    break;
                }
                seen[pos] = true;
                if d.slots[pos].0 & FREE_BIT == 0 {
                    errs.push((&["C12", "C01"], format!("free list contains live slot {pos}")));
                    break;
                }
                n += 1;
                head = d.slots[pos].0;
            }
            if errs.is_empty() && n != d.capacity - d.len {
                errs.push((&["C12"], format!("free list has {n} entries, expected capacity - len = {}", d.capacity - d.len)));
            }
            // dense handles are exactly the model's live handles
            let mut dense: Vec<(u32, u32)> = d.entities.clone();
            dense.sort();
            let s = self.slot(wi);
            let mut model: Vec<(u32, u32)> = s.m.archs[ai].live.iter().map(|u| s.m.ents[*u].handle.raw()).collect();
            model.sort();
            if dense != model {
                errs.push((&["C01"], format!("stored handles {:?} != live handles {:?}", dense.iter().take(8).collect::<Vec<_>>(), model.iter().take(8).collect::<Vec<_>>())));
            }
            // abstract state fingerprint for evidence
            let mut h = fnv(FNV0, d.len as u64);
            h = fnv(h, d.capacity as u64);
            h = fnv(h, d.free_head as u64);
            for (i, _) in d.slots.iter() {
                h = fnv(h, *i as u64);
            }
            self.rep.seen("storage_states", h);
        }
        self.slot(wi).m.archs[ai].cap_seen = cap.max(cap_seen);
        if let Some((tags, msg)) = errs.into_iter().next() {
            self.viol(Some(wi), tags, "invariant", format!("{name}: {msg}"));
        }
    }
}

pub fn kind_of(k: FaultKind) -> &'static str {
    match k {
        FaultKind::Closure => "closure",
        FaultKind::Clone => "clone",
        FaultKind::Drop => "drop",
    }
}

#[allow(dead_code)]
pub fn direct_fmt(d: EntityDirectAny) -> String {
    format!("{:?}", d)
}
