//! Fault injection (C10): a countdown injector panics at the k-th closure call / Clone /
//! Drop inside a gecs operation; the panic is caught and the world must still satisfy
//! every oracle, immediately and during continued use.

use crate::adapter::*;
use crate::engine::*;
use crate::guard::{guard, Caught};
use crate::payload::{arm, disarm, with_reg, FaultKind};
use crate::probe::ProbeCounts;
use crate::worlds::*;

impl<W: WorldOps> Engine<W> {
    fn expect_injected<T>(&mut self, wi: Option<usize>, what: &str, res: &Result<T, Caught>) -> bool {
        match res {
            Err(Caught::Injected(_)) => {
                self.rep.count(&format!("fault.fired.{what}"));
                true
            }
            Err(c) => {
                self.unexpected_panic(wi, what, c);
                false
            }
            Ok(_) => {
                // the countdown was larger than the number of callbacks: nothing fired
                disarm();
                self.rep.count(&format!("fault.not_reached.{what}"));
                false
            }
        }
    }

    /// Tokens of `rows` that are still alive after a panic are accounted as leaked by it.
    fn account_leaks(&mut self, rows: &[Row]) {
        for row in rows {
            for c in row {
                if c.0 != 0 && with_reg(|r| r.is_live(c.0)) {
                    self.leaked.insert(c.0);
                    self.rep.count("fault.tokens_leaked_by_panic");
                }
            }
        }
    }

    /// Zero-sized Drop components cannot be attributed; whatever exceeds the model is leaked.
    fn account_zst_leaks(&mut self) {
        let mut want = [0i64; 4];
        for s in self.worlds.iter().flatten() {
            for (ai, a) in s.m.archs.iter().enumerate() {
                for c in self.cols[ai].iter() {
                    if c.zst_index < 4 {
                        want[c.zst_index] += a.live.len() as i64;
                    }
                }
            }
        }
        let have = with_reg(|r| r.zst_live);
        for i in 0..4 {
            let extra = have[i] - want[i];
            if extra < 0 {
                self.viol(None, &["C10", "C04"], "fault-zst", format!("zero-sized Drop component type {i}: {} alive but {} entities own one (dropped twice)", have[i], want[i]));
            }
            self.zst_leaked[i] = extra.max(0);
        }
    }

    pub fn op_fault(&mut self, wi: usize, pc: &mut ProbeCounts) -> Vec<usize> {
        let mut touched = Vec::new();
        let scenario = self.rng.below(9);
        let wid = self.sl(wi).m.id;
        match scenario {
            // closure fault in a find-style lookup
            0 => {
                let Some(uid) = crate::history::pick_live(self, wi) else { return touched };
                let (ai, handle) = (self.sl(wi).m.ents[uid].arch, self.sl(wi).m.ents[uid].handle);
                let a = self.archs[ai];
                let api = LK_FIND + self.rng.below(4);
                let kind = self.rng.below(4);
                let Some(key) = self.fresh_key(wi, uid, kind) else { return touched };
                self.rep.log_op(format!("w{wid} FAULT closure in {} for {}", LOOKUP_NAMES[api], raw_fmt(handle)));
                arm(FaultKind::Closure, 0);
                let res = {
                    let s = self.worlds[wi].as_mut().unwrap();
                    guard(|| a.lookup(&mut s.w, api, key))
                };
                if self.expect_injected(Some(wi), "find-closure", &res) {
                    self.after_fault(wi, &[uid], "closure panic in find");
                }
                touched.push(uid);
            }
            // closure fault in a write (find, or the k-th call of an iterating write)
            1 => {
                let Some(uid) = crate::history::pick_live(self, wi) else { return touched };
                let (ai, handle) = (self.sl(wi).m.ents[uid].arch, self.sl(wi).m.ents[uid].handle);
                let a = self.archs[ai];
                let api = *self.rng.pick(&[WR_FIND, WR_FIND_BORROW, WR_ECS_ITER, WR_ECS_ITER_BORROW, WR_ECS_ITER_DESTROY]);
                let n = a.len(&self.sl(wi).w);
                let k = if WRITE_SCANS[api] { self.rng.below(n.max(1)) as u64 } else { 0 };
                let ncols = self.cols[ai].len();
                let vals: Vec<Option<u64>> = (0..ncols).map(|c| if self.cols[ai][c].zst { None } else { Some(self.rng.next() & self.cols[ai][c].mask) }).collect();
                self.rep.log_op(format!("w{wid} FAULT closure call {k} in write {} for {}", WRITE_NAMES[api], raw_fmt(handle)));
                arm(FaultKind::Closure, k);
                let res = {
                    let s = self.worlds[wi].as_mut().unwrap();
                    guard(|| a.write(&mut s.w, api, Key::Typed(handle, false), &vals))
                };
                if self.expect_injected(Some(wi), "write-closure", &res) {
                    self.after_fault(wi, &[uid], "closure panic in a writing query");
                } else if let Ok(true) = res {
                    // countdown not reached: the write happened normally
                }
                // all-or-nothing per entity: the row is entirely old or entirely new
                let got = {
                    let s = self.worlds[wi].as_mut().unwrap();
                    guard(|| a.lookup(&mut s.w, LK_A_VIEW, Key::Typed(handle, false)))
                };
                if let Ok(Some(f)) = got {
                    let old = self.sl(wi).m.ents[uid].row.clone();
                    let mut new = old.clone();
                    for c in 0..ncols {
                        if let Some(v) = vals[c] {
                            new[c].1 = v;
                        }
                    }
                    let row = f.row.unwrap();
                    if row == new {
                        self.slot(wi).m.ents[uid].row = new;
                        self.rep.count("fault.write_applied");
                    } else if row == old {
                        self.rep.count("fault.write_not_applied");
                    } else {
                        self.viol(Some(wi), &["C10", "C02"], "fault-write", format!("{}: after a panic in {} the entity {} is half written: {:?} (old {:?}, new {:?})", a.name(), WRITE_NAMES[api], raw_fmt(handle), row, old, new));
                    }
                }
                touched.push(uid);
            }
            // closure fault at the k-th call of an iteration (one archetype or a world query)
            2 => {
                if self.rng.chance(1, 2) {
                    let ai = crate::history::pick_arch(self);
                    let a = self.archs[ai];
                    let n = a.len(&self.sl(wi).w);
                    if n == 0 {
                        return touched;
                    }
                    let api = IT_ECS_ITER + self.rng.below(3);
                    let k = self.rng.below(n) as u64;
                    self.rep.log_op(format!("w{wid} FAULT closure call {k} in {} over {}", ITER_NAMES[api], a.name()));
                    arm(FaultKind::Closure, k);
                    let res = {
                        let s = self.worlds[wi].as_mut().unwrap();
                        guard(|| a.iter_pass(&mut s.w, api))
                    };
                    if self.expect_injected(Some(wi), "iter-closure", &res) {
                        self.after_fault(wi, &[], "closure panic in ecs_iter");
                    }
                } else {
                    let q = self.rng.below(self.queries.len());
                    let mode = self.rng.below(QUERY_MODES.len());
                    let total: usize = (0..self.archs.len()).filter(|ai| self.qmatch[q][*ai].is_some()).map(|ai| self.sl(wi).m.archs[ai].live.len()).sum();
                    if total == 0 {
                        return touched;
                    }
                    let k = self.rng.below(total) as u64;
                    self.rep.log_op(format!("w{wid} FAULT closure call {k} in {} query '{}'", QUERY_MODES[mode], self.queries[q].name));
                    arm(FaultKind::Closure, k);
                    let res = {
                        let s = self.worlds[wi].as_mut().unwrap();
                        guard(|| W::run_query(&mut s.w, q, mode, &mut |_| Step::Continue))
                    };
                    if self.expect_injected(Some(wi), "query-closure", &res) {
                        self.after_fault(wi, &[], "closure panic in a world query");
                    }
                }
            }
            // closure fault in the middle of ecs_iter_destroy! (earlier destroys already happened)
            3 | 4 => {
                let drop_fault = scenario == 4;
                let ai = crate::history::pick_arch(self);
                let n = self.sl(wi).m.archs[ai].live.len();
                if n == 0 {
                    return touched;
                }
                let k = self.rng.below(if drop_fault { n * self.cols[ai].len() } else { n }) as u64;
                let kind = if drop_fault { FaultKind::Drop } else { FaultKind::Closure };
                self.rep.log_op(format!("w{wid} FAULT {:?} callback {k} inside ecs_iter_destroy! over {}", kind, self.archs[ai].name()));
                let salt = self.rng.next();
                arm(kind, k);
                let weights = if drop_fault { [10, 90, 0, 0] } else { [40, 50, 4, 6] };
                self.op_iter_destroy(wi, Some(ai), 0, salt, weights, pc);
                if disarm() {
                    self.rep.count("fault.not_reached.iter_destroy");
                }
                self.account_zst_leaks();
            }
            // Clone fault: the source must be untouched, nothing is double-dropped
            5 => {
                let cells: usize = {
                    let m = &self.sl(wi).m;
                    (0..self.archs.len()).map(|ai| m.archs[ai].live.len() * self.cols[ai].iter().filter(|c| !c.zst || c.zst_index < 4).count()).sum()
                };
                if cells == 0 {
                    return touched;
                }
                let k = self.rng.below(cells) as u64;
                self.rep.log_op(format!("w{wid} FAULT Clone::clone number {k} of {cells} during world.clone()"));
                with_reg(|r| {
                    r.clone_log = Some(Vec::new());
                    r.zst_clone_log = [0; 4];
                });
                arm(FaultKind::Clone, k);
                let res = {
                    let s = self.worlds[wi].as_ref().unwrap();
                    guard(|| s.w.clone())
                };
                let log = with_reg(|r| r.clone_log.take().unwrap_or_default());
                let fired = self.expect_injected(Some(wi), "clone", &res);
                drop(res);
                if fired {
                    // clones made before the panic are dropped (finished archetypes) or leaked
                    let rows: Vec<Row> = vec![log.iter().map(|(_, n)| (*n, 0)).collect()];
                    self.account_leaks(&rows);
                    self.account_zst_leaks();
                    self.after_fault(wi, &[], "Clone panic in world.clone()");
                    self.rep.seen("clone_fault_points", k << 20 | cells as u64);
                }
            }
            // Drop fault while a whole world is dropped
            6 => {
                if self.live_worlds().len() < 2 {
                    if self.op_clone(wi).is_none() {
                        return touched;
                    }
                }
                let victims: Vec<usize> = self.live_worlds().into_iter().filter(|i| *i != wi).collect();
                let Some(vi) = victims.first().copied() else { return touched };
                let Some(slot) = self.worlds[vi].take() else { return touched };
                let cells: usize = (0..self.archs.len()).map(|ai| slot.m.archs[ai].live.len() * self.cols[ai].iter().filter(|c| !c.zst || c.zst_index < 4).count()).sum();
                let rows: Vec<Row> = slot.m.archs.iter().flat_map(|a| a.live.iter().map(|u| slot.m.ents[*u].row.clone())).collect();
                if cells == 0 {
                    drop(slot);
                    return touched;
                }
                let k = self.rng.below(cells) as u64;
                self.rep.log_op(format!("w{} FAULT Drop::drop number {k} of {cells} during world drop", slot.m.id));
                arm(FaultKind::Drop, k);
                let w = slot.w;
                let res = guard(move || drop(w));
                if self.expect_injected(None, "world-drop", &res) {
                    self.rep.seen("drop_fault_points", k << 20 | cells as u64);
                }
                self.account_leaks(&rows);
                self.account_zst_leaks();
            }
            // Drop fault while a dynamic-key destroy drops the removed tuple inside gecs
            7 => {
                let Some(uid) = crate::history::pick_live(self, wi) else { return touched };
                let (ai, handle) = (self.sl(wi).m.ents[uid].arch, self.sl(wi).m.ents[uid].handle);
                let a = self.archs[ai];
                let droppers = self.cols[ai].iter().filter(|c| !c.zst || c.zst_index < 4).count();
                if droppers == 0 {
                    return touched;
                }
                let k = self.rng.below(droppers) as u64;
                let kind = 1 + 2 * self.rng.below(2); // EntityAny or EntityDirectAny
                let Some(key) = self.fresh_key(wi, uid, kind) else { return touched };
                self.rep.log_op(format!("w{wid} FAULT Drop::drop number {k} inside World::destroy({}) of {}", KEY_KINDS[kind], raw_fmt(handle)));
                let row = self.sl(wi).m.ents[uid].row.clone();
                arm(FaultKind::Drop, k);
                let res = {
                    let s = self.worlds[wi].as_mut().unwrap();
                    guard(|| a.destroy(&mut s.w, DS_WORLD, key))
                };
                if self.expect_injected(Some(wi), "dynamic-destroy-drop", &res) {
                    self.after_fault(wi, &[uid], "Drop panic inside dynamic-key destroy");
                    if !self.sl(wi).m.ents[uid].alive {
                        // the tuple was being dropped: every component is dropped or leaked, once
                        self.account_leaks(&[row]);
                    }
                    self.account_zst_leaks();
                } else if let Ok(DestroyOut::Destroyed(_)) = res {
                    let step = self.rep.step;
                    self.slot(wi).m.remove(uid, step);
                }
                touched.push(uid);
            }
            // closure fault in an archetype-level read pass through the typed ecs_iter_destroy!
            _ => {
                let ai = crate::history::pick_arch(self);
                let a = self.archs[ai];
                let n = a.len(&self.sl(wi).w);
                if n == 0 {
                    return touched;
                }
                let k = self.rng.below(n) as u64;
                self.rep.log_op(format!("w{wid} FAULT closure call {k} in ecs_iter_borrow! over {}", a.name()));
                arm(FaultKind::Closure, k);
                let res = {
                    let s = self.worlds[wi].as_mut().unwrap();
                    guard(|| a.iter_pass(&mut s.w, IT_ECS_ITER_BORROW))
                };
                if self.expect_injected(Some(wi), "iter-borrow-closure", &res) {
                    self.after_fault(wi, &[], "closure panic in ecs_iter_borrow!");
                    // guards released by unwinding: every column must accept a mutable borrow again
                    let ncols = self.cols[ai].len();
                    let live = self.sl(wi).m.archs[ai].live.clone();
                    if let Some(uid) = live.first().copied() {
                        let handle = self.sl(wi).m.ents[uid].handle;
                        let vals: Vec<Option<u64>> = (0..ncols).map(|c| if self.cols[ai][c].zst { None } else { Some(self.sl(wi).m.ents[uid].row[c].1) }).collect();
                        let r = {
                            let s = self.worlds[wi].as_mut().unwrap();
                            guard(|| a.write(&mut s.w, WR_BORROW_SLICE_MUT, Key::Typed(handle, false), &vals))
                        };
                        if let Err(c) = r {
                            self.viol(Some(wi), &["C10", "C11"], "fault-borrow-leak", format!("{}: a column stayed borrowed after a closure panic unwound out of ecs_iter_borrow!: {}", a.name(), c.msg()));
                        }
                    }
                }
            }
        }
        disarm();
        if let Some(last) = self.rep.trace.last() {
            if last.contains("FAULT") {
                // distinct fault points: operation x kind x k (world ids stripped)
                let h = last.split_once(' ').map(|x| x.1).unwrap_or("").bytes().fold(crate::report::FNV0, |h, b| crate::report::fnv(h, b as u64));
                self.rep.seen("fault_points", h);
            }
        }
        touched
    }
}
