//! The probe suite: after a step, every lookup path is exercised for live, stale and direct
//! handles and judged against the model (C01, C02, C09).

use crate::adapter::*;
use crate::engine::*;
use crate::guard::guard;
use crate::model::MDirect;
use crate::payload::with_reg;
use crate::worlds::WorldOps;
use gecs::prelude::EntityDirectAny;

#[derive(Default)]
pub struct ProbeCounts {
    /// [api][key kind][alive][accepted]
    pub lk: [[[[u64; 2]; 2]; 4]; N_LOOKUPS],
    /// direct probes: [removals since issue > 0][creations since > 0][accepted]
    pub direct: [[[u64; 2]; 2]; 2],
    pub stale_after_reuse: u64,
    pub stale_after_2plus_reuses: u64,
    pub stale_after_growth: u64,
    pub rows_compared: u64,
    pub wrong_archetype: u64,
    pub directs_by_source: std::collections::BTreeMap<&'static str, u64>,
    /// every direct handle obtained, per source (also the ones equal to one already recorded)
    pub directs_seen_by_source: std::collections::BTreeMap<&'static str, u64>,
}

impl<W: WorldOps> Engine<W> {
    /// A slot-key lookup (typed or dynamic) of the handle of entity `uid`.
    pub fn check_slot_lookup(&mut self, wi: usize, uid: usize, kind: usize, api: usize, pc: &mut ProbeCounts) {
        let (ai, handle, alive) = {
            let e = &self.slot(wi).m.ents[uid];
            (e.arch, e.handle, e.alive)
        };
        let a = self.archs[ai];
        let key = Key::slot(kind, handle);
        let res = {
            let s = self.worlds[wi].as_mut().unwrap();
            guard(|| a.lookup(&mut s.w, api, key))
        };
        let out = match res {
            Ok(o) => o,
            Err(c) => {
                self.unexpected_panic(Some(wi), &format!("{} with {} {}", LOOKUP_NAMES[api], KEY_KINDS[kind], raw_fmt(handle)), &c);
                return;
            }
        };
        pc.lk[api][kind][alive as usize][out.is_some() as usize] += 1;
        match (alive, out) {
            (true, None) => {
                self.viol(Some(wi), &["C01"], "lookup", format!("{}: {} rejected live handle {} ({})", a.name(), LOOKUP_NAMES[api], raw_fmt(handle), KEY_KINDS[kind]));
            }
            (false, Some(_)) => {
                let s = self.slot(wi);
                let pos = handle.raw().0 >> 8;
                let rel = s.m.archs[ai].pos_releases.get(&pos).copied().unwrap_or(0) - s.m.ents[uid].pos_releases_at_issue;
                if self.wrapping && rel >= u32::MAX as u64 {
                    self.rep.count("stale_accepted_after_full_wrap");
                    return;
                }
                self.viol(Some(wi), &["C01"], "lookup", format!("{}: {} accepted stale handle {} ({}); its position was released {rel} times since issue", a.name(), LOOKUP_NAMES[api], raw_fmt(handle), KEY_KINDS[kind]));
            }
            (false, None) => {
                let s = self.slot(wi);
                let pos = handle.raw().0 >> 8;
                let rel = s.m.archs[ai].pos_releases.get(&pos).copied().unwrap_or(0) - s.m.ents[uid].pos_releases_at_issue;
                // rel >= 1 always (its own release); reuse means a later entity got the position
                let reused = s.m.issued.range((handle.raw().0, 0)..=(handle.raw().0, u32::MAX)).count() > 1 || rel >= 2;
                if reused {
                    pc.stale_after_reuse += 1;
                }
                if rel >= 3 {
                    pc.stale_after_2plus_reuses += 1;
                }
            }
            (true, Some(f)) => {
                self.judge_found(wi, uid, api, kind, &f, pc);
                if let Some(d) = f.direct {
                    self.harvest_direct(wi, uid, d, LOOKUP_NAMES[api], pc);
                }
            }
        }
    }

    /// An accepting lookup must designate exactly entity `uid`.
    pub fn judge_found(&mut self, wi: usize, uid: usize, api: usize, kind: usize, f: &Found, pc: &mut ProbeCounts) {
        let (ai, handle) = {
            let e = &self.slot(wi).m.ents[uid];
            (e.arch, e.handle)
        };
        let a = self.archs[ai];
        let ctx = |s: &str| format!("{}: {} ({}) for {}: {s}", a.name(), LOOKUP_NAMES[api], KEY_KINDS[kind], raw_fmt(handle));
        if let Some(e) = f.entity {
            if e != handle {
                self.viol(Some(wi), &["C01", "C09"], "identity", ctx(&format!("reported entity {}", raw_fmt(e))));
                return;
            }
        }
        if let Some(id) = f.matched_id {
            if id != a.id() {
                self.viol(Some(wi), &["C01", "C05"], "identity", ctx(&format!("closure ran with MatchedArchetype id {id}")));
                return;
            }
        }
        if let Some(i) = f.index {
            let ents = a.entities(&self.slot(wi).w);
            if i >= ents.len() || ents[i] != handle {
                self.viol(Some(wi), &["C01", "C09"], "identity", ctx(&format!("resolved to dense index {i} which holds {:?}", ents.get(i).map(|e| raw_fmt(*e)))));
                return;
            }
        }
        if let Some(row) = &f.row {
            pc.rows_compared += 1;
            let want = self.sl(wi).m.ents[uid].row.clone();
            let want = &want;
            if row != want {
                // attribute: does the row belong to another entity wholesale?
                let s = self.slot(wi);
                let owners: Vec<Option<usize>> = row.iter().filter(|c| c.0 != 0).map(|c| s.m.token_owner.get(&c.0).map(|o| o.0)).collect();
                let other = !owners.is_empty() && owners.iter().all(|o| o.is_some() && *o != Some(uid)) && owners.windows(2).all(|w| w[0] == w[1]);
                let detail = ctx(&format!("read {:?}, expected {:?}", row, want));
                if other {
                    self.viol(Some(wi), &["C02", "C01", "C09"], "values", detail);
                } else {
                    self.viol(Some(wi), &["C02"], "values", detail);
                }
                return;
            }
            if !f.coherent {
                self.viol(Some(wi), &["C02"], "values", ctx("a component's redundant fields are incoherent (torn or misaligned cell)"));
            }
        }
    }

    pub fn harvest_direct(&mut self, wi: usize, uid: usize, d: EntityDirectAny, source: &'static str, pc: &mut ProbeCounts) {
        let step = self.rep.step;
        let s = self.slot(wi);
        let ai = s.m.ents[uid].arch;
        let rec = MDirect { handle: d, arch: ai, uid, removals: s.m.archs[ai].removals, creations: s.m.archs[ai].creations, source, step };
        *pc.directs_seen_by_source.entry(source).or_insert(0) += 1;
        if s.m.add_direct(rec) {
            *pc.directs_by_source.entry(source).or_insert(0) += 1;
        }
    }

    /// A direct-key lookup judged by C09's rule.
    pub fn check_direct_lookup(&mut self, wi: usize, di: usize, kind: usize, api: usize, pc: &mut ProbeCounts) {
        let d = self.slot(wi).m.directs[di].clone();
        let a = self.archs[d.arch];
        let key = Key::direct(kind, d.handle);
        let res = {
            let s = self.worlds[wi].as_mut().unwrap();
            guard(|| a.lookup(&mut s.w, api, key))
        };
        let out = match res {
            Ok(o) => o,
            Err(c) => {
                self.unexpected_panic(Some(wi), &format!("{} with {} {:?}", LOOKUP_NAMES[api], KEY_KINDS[kind], d.handle), &c);
                return;
            }
        };
        let (r, c) = {
            let m = &self.slot(wi).m.archs[d.arch];
            (m.removals, m.creations)
        };
        let dr = r - d.removals;
        let dc = c - d.creations;
        pc.lk[api][kind][(dr == 0) as usize][out.is_some() as usize] += 1;
        pc.direct[(dr > 0) as usize][(dc > 0) as usize][out.is_some() as usize] += 1;
        let ctx = |s: &str| format!("{}: {} ({}) for {:?} issued by {} at step {} for uid {} ({} removals, {} creations since): {s}", a.name(), LOOKUP_NAMES[api], KEY_KINDS[kind], d.handle, d.source, d.step, d.uid, dr, dc);
        match out {
            Some(f) => {
                if dr > 0 {
                    if self.wrapping && dr % (u32::MAX as u64) == 0 {
                        self.rep.count("direct_accepted_after_full_wrap");
                        return;
                    }
                    let tags: &[&'static str] = if d.source == "ecs_iter_destroy!" { &["C09", "C07"] } else { &["C09"] };
                    self.viol(Some(wi), tags, "direct-stale", ctx("accepted after a removal from its archetype"));
                    return;
                }
                self.judge_found(wi, d.uid, api, kind, &f, pc);
                if let Some(nd) = f.direct {
                    if dc == 0 && nd != d.handle {
                        self.viol(Some(wi), &["C09"], "direct-identity", ctx(&format!("returned a different direct handle {:?}", nd)));
                    }
                }
            }
            None => {
                if dr == 0 && dc == 0 {
                    let tags: &[&'static str] = if d.source == "ecs_iter_destroy!" { &["C09", "C07"] } else { &["C09"] };
                    self.viol(Some(wi), tags, "direct-fresh", ctx("rejected although its archetype had no structural change since it was issued"));
                }
            }
        }
    }

    /// A dynamic key handed to *another* archetype's archetype-level API must be rejected:
    /// accepting it would make the handle designate an entity it was not issued for.
    pub fn check_wrong_archetype(&mut self, wi: usize, own: usize, key: Key, destroy_too: bool, pc: &mut ProbeCounts) {
        const ARCH_LEVEL: [usize; 7] = [LK_A_CONTAINS, LK_A_TO_DIRECT, LK_A_RESOLVE, LK_A_VIEW, LK_A_BORROW, LK_RESOLVE_SLICES, LK_RESOLVE_BORROW_SLICES];
        if self.archs.len() < 2 {
            return;
        }
        let bi = (own + 1 + self.rng.below(self.archs.len() - 1)) % self.archs.len();
        let b = self.archs[bi];
        let api = *self.rng.pick(&ARCH_LEVEL);
        let tags: &[&'static str] = if key.is_direct() { &["C09", "C03"] } else { &["C01", "C03"] };
        let res = {
            let s = self.worlds[wi].as_mut().unwrap();
            guard(|| b.lookup(&mut s.w, api, key))
        };
        pc.wrong_archetype += 1;
        match res {
            Ok(None) => {}
            Ok(Some(_)) => {
                self.viol(Some(wi), tags, "wrong-archetype", format!("{}: {} accepted {:?}, a handle of archetype {}", b.name(), LOOKUP_NAMES[api], key, self.archs[own].name()));
                return;
            }
            Err(c) => {
                self.viol(Some(wi), tags, "wrong-archetype", format!("{}: {} panicked on {:?}, a handle of archetype {}: {}", b.name(), LOOKUP_NAMES[api], key, self.archs[own].name(), c.msg()));
                return;
            }
        }
        if destroy_too {
            let before: Vec<usize> = (0..self.archs.len()).map(|i| self.archs[i].len(&self.sl(wi).w)).collect();
            let res = {
                let s = self.worlds[wi].as_mut().unwrap();
                guard(|| b.destroy(&mut s.w, DS_ARCH, key))
            };
            let after: Vec<usize> = (0..self.archs.len()).map(|i| self.archs[i].len(&self.sl(wi).w)).collect();
            match res {
                Ok(DestroyOut::Absent) if before == after => {}
                Ok(o) => self.viol(Some(wi), tags, "wrong-archetype", format!("{}::destroy({:?}) with a handle of archetype {} returned {:?} (lens {:?} -> {:?})", b.name(), key, self.archs[own].name(), o, before, after)),
                Err(c) => self.viol(Some(wi), tags, "wrong-archetype", format!("{}::destroy({:?}) with a handle of archetype {} panicked: {}", b.name(), key, self.archs[own].name(), c.msg())),
            }
        }
    }

    /// destroy() with a direct handle that a later removal has invalidated.
    pub fn op_destroy_stale_direct(&mut self, wi: usize, di: usize, level: usize, kind: usize) {
        let d = self.sl(wi).m.directs[di].clone();
        let a = self.archs[d.arch];
        let dr = self.sl(wi).m.archs[d.arch].removals - d.removals;
        if dr == 0 || (self.wrapping && dr % (u32::MAX as u64) == 0) {
            return;
        }
        let key = Key::direct(kind, d.handle);
        self.rep.log_op(format!("w{} destroy-stale-direct arch={} {:?} level={} key={}", self.sl(wi).m.id, a.name(), d.handle, DESTROY_NAMES[level], KEY_KINDS[kind]));
        self.rep.count("op.destroy_stale_direct");
        let before: Vec<usize> = (0..self.archs.len()).map(|i| self.archs[i].len(&self.sl(wi).w)).collect();
        let res = {
            let s = self.worlds[wi].as_mut().unwrap();
            guard(|| a.destroy(&mut s.w, level, key))
        };
        let after: Vec<usize> = (0..self.archs.len()).map(|i| self.archs[i].len(&self.sl(wi).w)).collect();
        match res {
            Ok(DestroyOut::Absent) if before == after => {}
            Ok(o) => self.viol(Some(wi), &["C09", "C01"], "destroy-stale-direct", format!("{}: {} with stale {:?} ({} removals since issue) returned {:?}; lens {:?} -> {:?}", a.name(), DESTROY_NAMES[level], d.handle, dr, o, before, after)),
            Err(c) => self.unexpected_panic(Some(wi), "destroy with a stale direct handle", &c),
        }
    }

    /// Runs the probe suite on world `wi`. `touched` are uids the last operation involved.
    pub fn probe(&mut self, wi: usize, full: bool, touched: &[usize], pc: &mut ProbeCounts) {
        if self.rep.failed() {
            return;
        }
        let mut uids: Vec<usize> = touched.to_vec();
        let mut dis: Vec<usize> = Vec::new();
        {
            let n = self.prof.sample;
            let mut rng = self.rng.clone();
            let s = self.slot(wi);
            let m = &s.m;
            if full {
                for a in m.archs.iter() {
                    uids.extend(a.live.iter().copied());
                }
                uids.extend(m.dead_recent.iter().copied());
                for _ in 0..32.min(m.dead_all.len()) {
                    uids.push(m.dead_all[rng.below(m.dead_all.len())]);
                }
                let nd = m.directs.len();
                for (i, d) in m.directs.iter().enumerate() {
                    if i + 64 >= nd || m.archs[d.arch].removals == d.removals {
                        dis.push(i);
                    }
                }
                for _ in 0..16.min(nd) {
                    dis.push(rng.below(nd));
                }
            } else {
                let live: Vec<usize> = m.archs.iter().flat_map(|a| a.live.iter().copied()).collect();
                for _ in 0..n.min(live.len()) {
                    uids.push(live[rng.below(live.len())]);
                }
                for _ in 0..n.min(m.dead_recent.len()) {
                    uids.push(m.dead_recent[rng.below(m.dead_recent.len())]);
                }
                for _ in 0..2.min(m.dead_all.len()) {
                    uids.push(m.dead_all[rng.below(m.dead_all.len())]);
                }
                let nd = m.directs.len();
                for _ in 0..n.max(1).min(nd) {
                    dis.push(nd - 1 - rng.below(nd.min(64)));
                }
                for _ in 0..2.min(nd) {
                    dis.push(rng.below(nd));
                }
            }
            self.rng = rng;
        }
        uids.sort();
        uids.dedup();
        dis.sort();
        dis.dedup();
        self.rep.add("probe.handles", uids.len() as u64);
        self.rep.add("probe.directs", dis.len() as u64);
        let sub = self.prof.api_subset.min(N_LOOKUPS);
        for uid in uids {
            for kind in 0..2 {
                let start = if sub < N_LOOKUPS { self.rng.below(N_LOOKUPS) } else { 0 };
                for j in 0..sub {
                    let api = (start + j * 4) % N_LOOKUPS;
                    self.check_slot_lookup(wi, uid, kind, api, pc);
                    if self.rep.failed() {
                        return;
                    }
                }
            }
            let (ai, h) = (self.sl(wi).m.ents[uid].arch, self.sl(wi).m.ents[uid].handle);
            let destroy_too = self.rng.chance(1, 4);
            self.check_wrong_archetype(wi, ai, Key::Any(h), destroy_too, pc);
            if self.rep.failed() {
                return;
            }
        }
        for di in dis {
            for kind in 2..4 {
                let start = if sub < N_LOOKUPS { self.rng.below(N_LOOKUPS) } else { 0 };
                for j in 0..sub {
                    let api = (start + j * 4) % N_LOOKUPS;
                    self.check_direct_lookup(wi, di, kind, api, pc);
                    if self.rep.failed() {
                        return;
                    }
                }
            }
            let (ai, dh) = (self.sl(wi).m.directs[di].arch, self.sl(wi).m.directs[di].handle);
            let destroy_too = self.rng.chance(1, 4);
            self.check_wrong_archetype(wi, ai, Key::DirectAny(dh), destroy_too, pc);
            if self.rep.failed() {
                return;
            }
        }
    }

    /// Registry sweep: the live tokens are exactly the model's (plus what panics leaked).
    pub fn sweep_registry(&mut self) {
        self.rep.count("registry_sweeps");
        let mut want: std::collections::BTreeSet<u64> = self.leaked.clone();
        let mut zst_want = self.zst_leaked;
        for s in self.worlds.iter().flatten() {
            for (ai, a) in s.m.archs.iter().enumerate() {
                for uid in a.live.iter() {
                    for (c, cell) in s.m.ents[*uid].row.iter().enumerate() {
                        if cell.0 != 0 {
                            want.insert(cell.0);
                        } else if self.cols[ai][c].zst_index < 4 {
                            zst_want[self.cols[ai][c].zst_index] += 1;
                        }
                    }
                }
            }
        }
        let have: std::collections::BTreeSet<u64> = with_reg(|r| r.live_tokens()).into_iter().collect();
        if let Some(t) = have.difference(&want).next() {
            self.viol(None, &["C04"], "registry-sweep", format!("component token {t} is still alive but belongs to no live entity (leak)"));
        }
        if let Some(t) = want.difference(&have).next() {
            self.viol(None, &["C04"], "registry-sweep", format!("component token {t} of a live entity has been dropped"));
        }
        let zst_have = with_reg(|r| r.zst_live);
        if zst_have != zst_want {
            self.viol(None, &["C04"], "registry-sweep", format!("zero-sized Drop components alive {:?}, expected {:?}", zst_have, zst_want));
        }
    }
}
