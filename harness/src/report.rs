//! Counters, violation records and a tiny JSON writer (no external crates).

use std::collections::BTreeMap;

pub fn json_str(s: &str) -> String {
    let mut o = String::with_capacity(s.len() + 2);
    o.push('"');
    for c in s.chars() {
        match c {
            '"' => o.push_str("\\\""),
            '\\' => o.push_str("\\\\"),
            '\n' => o.push_str("\\n"),
            '\r' => o.push_str("\\r"),
            '\t' => o.push_str("\\t"),
            c if (c as u32) < 0x20 => o.push_str(&format!("\\u{:04x}", c as u32)),
            c => o.push(c),
        }
    }
    o.push('"');
    o
}

pub fn json_list(items: &[String]) -> String {
    format!("[{}]", items.join(","))
}

/// A refuted oracle. `tags` are the property ids the observation refutes.
#[derive(Clone, Debug)]
pub struct Violation {
    pub tags: Vec<&'static str>,
    pub oracle: String,
    pub step: usize,
    pub detail: String,
}

#[derive(Default)]
pub struct Report {
    pub counters: BTreeMap<String, u64>,
    /// distinct abstract items seen, per category (counted, and a few kept as samples)
    pub distinct: BTreeMap<String, std::collections::BTreeSet<u64>>,
    pub samples: Vec<String>,
    pub trace: Vec<String>,
    pub trace_cap: usize,
    pub trace_dropped: usize,
    pub step: usize,
    pub violation: Option<Violation>,
}

impl Report {
    pub fn new() -> Self {
        Report { trace_cap: 4000, ..Default::default() }
    }
    pub fn count(&mut self, key: &str) {
        self.add(key, 1);
    }
    pub fn add(&mut self, key: &str, n: u64) {
        if let Some(c) = self.counters.get_mut(key) {
            *c += n;
        } else {
            self.counters.insert(key.to_string(), n);
        }
    }
    pub fn maxi(&mut self, key: &str, v: u64) {
        let c = self.counters.entry(key.to_string()).or_insert(0);
        if v > *c {
            *c = v;
        }
    }
    pub fn get(&self, key: &str) -> u64 {
        self.counters.get(key).copied().unwrap_or(0)
    }
    pub fn seen(&mut self, cat: &str, h: u64) {
        let set = self.distinct.entry(cat.to_string()).or_default();
        if set.len() < 2_000_000 {
            set.insert(h);
        }
    }
    pub fn sample(&mut self, s: String) {
        if self.samples.len() < 12 {
            self.samples.push(s);
        }
    }
    pub fn log_op(&mut self, s: String) {
        if self.trace.len() >= self.trace_cap {
            // keep the head (setup) and the tail (what led to a violation)
            let keep_head = self.trace_cap / 8;
            let drop_n = self.trace_cap / 2;
            self.trace.drain(keep_head..keep_head + drop_n);
            self.trace_dropped += drop_n;
        }
        self.trace.push(s);
    }
    /// Records the first violation only (the state is not trusted afterwards).
    pub fn violate(&mut self, tags: &[&'static str], oracle: &str, detail: String) {
        if self.violation.is_none() {
            self.violation = Some(Violation { tags: tags.to_vec(), oracle: oracle.to_string(), step: self.step, detail });
        }
    }
    pub fn failed(&self) -> bool {
        self.violation.is_some()
    }

    pub fn to_json(&self, workload: &str, argv: &[String]) -> String {
        let mut parts = Vec::new();
        parts.push(format!("\"workload\":{}", json_str(workload)));
        parts.push(format!("\"argv\":{}", json_list(&argv.iter().map(|a| json_str(a)).collect::<Vec<_>>())));
        parts.push(format!("\"steps\":{}", self.step));
        let counters: Vec<String> = self.counters.iter().map(|(k, v)| format!("{}:{}", json_str(k), v)).collect();
        parts.push(format!("\"counters\":{{{}}}", counters.join(",")));
        let distinct: Vec<String> = self.distinct.iter().map(|(k, v)| format!("{}:{}", json_str(k), v.len())).collect();
        parts.push(format!("\"distinct\":{{{}}}", distinct.join(",")));
        parts.push(format!("\"samples\":{}", json_list(&self.samples.iter().map(|s| json_str(s)).collect::<Vec<_>>())));
        match &self.violation {
            None => parts.push("\"violation\":null".to_string()),
            Some(v) => {
                let tags: Vec<String> = v.tags.iter().map(|t| json_str(t)).collect();
                parts.push(format!(
                    "\"violation\":{{\"tags\":{},\"oracle\":{},\"step\":{},\"detail\":{},\"trace_dropped\":{},\"trace\":{}}}",
                    json_list(&tags),
                    json_str(&v.oracle),
                    v.step,
                    json_str(&v.detail),
                    self.trace_dropped,
                    json_list(&self.trace.iter().map(|s| json_str(s)).collect::<Vec<_>>())
                ));
            }
        }
        format!("{{{}}}", parts.join(","))
    }
}

pub fn fnv(h: u64, x: u64) -> u64 {
    let mut h = h;
    for b in x.to_le_bytes() {
        h ^= b as u64;
        h = h.wrapping_mul(0x0000_0100_0000_01B3);
    }
    h
}
pub const FNV0: u64 = 0xcbf2_9ce4_8422_2325;
