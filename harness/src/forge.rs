//! Forged / foreign handles (C03): boundary classes computed from the live state plus
//! uniform random values, pushed through every lookup path and destroy. Memory safety is
//! judged by Miri / ASan / signals; "never matches by accident" by the model.

use crate::adapter::*;
use crate::engine::*;
use crate::guard::guard;
use crate::history::{finish, flush_counts, profile, step_once};
use crate::probe::ProbeCounts;
use crate::worlds::WorldOps;
use gecs::prelude::{EntityAny, EntityDirectAny};

pub struct Forged {
    pub key: Key,
    pub class: &'static str,
    /// adapter (archetype) the call goes through
    pub ai: usize,
}

fn any(pos: u32, id: u8, gen: u32) -> Option<EntityAny> {
    EntityAny::from_raw(((pos << 8) | id as u32, gen)).ok()
}

impl<W: WorldOps> Engine<W> {
    /// Mints a direct handle (archetype `ai`, dense index `index`, archetype version
    /// `version`) in a scratch world of the same type -- a "foreign" handle.
    pub fn mint_foreign_direct(&mut self, ai: usize, index: usize, version: u32) -> Option<EntityDirectAny> {
        if version == 0 || index > 40 {
            return None;
        }
        let a = self.archs[ai];
        let mut caps = vec![0usize; self.archs.len()];
        caps[ai] = index + 1;
        let mut w = W::build(&caps, 0);
        if version > 1 {
            // reachable combination: one position released version-1 times
            a.preset_versions(&mut w, &[(0, version)], version);
        }
        let mut last = None;
        let mut rows = Vec::new();
        for _ in 0..=index {
            let row = self.fresh_row(ai);
            if let (CreateOut::Created(h), _) = a.create(&mut w, CR_A_CREATE, &row) {
                last = Some(h);
            }
            rows.push(row);
        }
        let d = a.lookup(&mut w, LK_A_TO_DIRECT, Key::Typed(last?, false)).and_then(|f| f.direct);
        drop(w);
        self.rep.count("forge.foreign_direct_minted");
        d
    }

    pub fn forge_candidates(&mut self, wi: usize) -> Vec<Forged> {
        let mut out: Vec<Forged> = Vec::new();
        let narch = self.archs.len();
        let declared: Vec<u8> = self.archs.iter().map(|a| a.id()).collect();
        let undeclared: Vec<u8> = (0..=255u8).filter(|i| !declared.contains(i)).collect();
        let ai = self.rng.below(narch);
        let a = self.archs[ai];
        let id = a.id();
        let d = a.dump(&self.sl(wi).w);
        let cap = d.capacity as u32;
        let len = d.len as u32;
        let mut push = |out: &mut Vec<Forged>, e: Option<EntityAny>, class: &'static str, ai: usize, typed: bool| {
            if let Some(e) = e {
                out.push(Forged { key: if typed { Key::Typed(e, true) } else { Key::Any(e) }, class, ai });
            }
        };
        // (a) free slot with its *current* generation
        let free: Vec<u32> = (0..cap).filter(|p| d.slots[*p as usize].0 & FREE_BIT != 0).collect();
        if !free.is_empty() {
            let p = free[self.rng.below(free.len())];
            let g = d.slots[p as usize].1;
            push(&mut out, any(p, id, g), "free-slot-current-generation", ai, false);
            push(&mut out, any(p, id, g), "free-slot-current-generation", ai, true);
            push(&mut out, any(p, id, g.wrapping_sub(1)), "free-slot-previous-generation", ai, false);
        }
        // (b) positions at and beyond capacity
        let some_gen = if len > 0 { d.entities[self.rng.below(len as usize)].1 } else { 1 };
        for (p, class) in [(cap, "position==capacity"), (cap + 1, "position==capacity+1"), ((1 << 24) - 1, "position==2^24-1"), (cap.wrapping_sub(1) & 0xFF_FFFF, "position==capacity-1")] {
            let g = *self.rng.pick(&[1u32, some_gen, u32::MAX]);
            push(&mut out, any(p & 0xFF_FFFF, id, g), class, ai, self.rng.chance(1, 3));
        }
        // (c)/(d) live slots: exact, and with a wrong generation
        if len > 0 {
            let (key, gen) = d.entities[self.rng.below(len as usize)];
            let pos = key >> 8;
            push(&mut out, any(pos, id, gen), "bit-identical-to-live", ai, false);
            push(&mut out, any(pos, id, gen), "bit-identical-to-live", ai, true);
            for g in [gen.wrapping_add(1), gen.wrapping_sub(1), 1, u32::MAX] {
                if g != gen {
                    push(&mut out, any(pos, id, g), "live-slot-wrong-generation", ai, self.rng.chance(1, 3));
                }
            }
            // (e) undeclared archetype id with an otherwise valid position/generation
            if !undeclared.is_empty() {
                let u = *self.rng.pick(&undeclared);
                let other = self.rng.below(narch);
                push(&mut out, any(pos, u, gen), "undeclared-archetype-id", other, false);
            }
            // (f) another declared archetype's id byte on this position/generation
            let bi = self.rng.below(narch);
            if bi != ai {
                push(&mut out, any(pos, self.archs[bi].id(), gen), "other-archetype-id-byte", bi, false);
                // typed handle of archetype B converted unchecked from A's handle
                push(&mut out, any(pos, id, gen), "unchecked-conversion-from-other-archetype", bi, true);
            }
        } else {
            // empty archetype (dangling slot pointer when capacity == 0)
            push(&mut out, any(0, id, 1), "empty-archetype", ai, false);
            push(&mut out, any(0, id, 1), "empty-archetype", ai, true);
        }
        // (g) uniform random bits
        for _ in 0..3 {
            let (k, g) = (self.rng.next() as u32, self.rng.next() as u32);
            if let Ok(e) = EntityAny::from_raw((k, g)) {
                let idb = (k & 0xFF) as u8;
                let target = declared.iter().position(|x| *x == idb).unwrap_or(self.rng.below(narch));
                out.push(Forged { key: Key::Any(e), class: "uniform-random", ai: target });
            }
        }
        if EntityAny::from_raw((self.rng.next() as u32, 0)).is_ok() {
            self.viol(Some(wi), &["C03", "C14"], "from-raw", "from_raw accepted generation 0".into());
        }
        // direct keys from a foreign world: index/version boundary classes
        let version = d.version;
        let picks: [(usize, u32, &'static str); 6] = [
            (d.len, version, "direct-index==len-current-version"),
            (d.len + 1, version, "direct-index==len+1-current-version"),
            (d.len.saturating_sub(1), version, "direct-last-index-current-version"),
            (0, version, "direct-index0-current-version"),
            (0, version.wrapping_add(1).max(1), "direct-next-version"),
            (d.capacity, version, "direct-index==capacity-current-version"),
        ];
        let (index, v, class) = picks[self.rng.below(picks.len())];
        if let Some(dh) = self.mint_foreign_direct(ai, index, v) {
            let typed = self.rng.chance(1, 2);
            out.push(Forged { key: if typed { Key::Direct(dh, true) } else { Key::DirectAny(dh) }, class, ai });
            // the same direct handle presented to another archetype through an unchecked conversion
            let bi = self.rng.below(narch);
            if bi != ai {
                out.push(Forged { key: Key::Direct(dh, true), class: "direct-unchecked-conversion-from-other-archetype", ai: bi });
            }
        }
        out
    }

    /// What the model allows for a forged key on archetype `ai`: Some(uid) = must reach
    /// exactly that entity (or, for id-byte mismatches on typed paths, may); None = must not match.
    fn forge_expect(&mut self, wi: usize, f: &Forged) -> (Option<usize>, bool) {
        let a = self.archs[f.ai];
        match f.key {
            Key::Any(e) | Key::Typed(e, _) => {
                let typed = matches!(f.key, Key::Typed(..));
                let idb = e.archetype_id();
                let m = &self.sl(wi).m;
                if idb == a.id() {
                    let uid = m.issued.get(&e.raw()).copied().filter(|u| m.ents[*u].alive && m.ents[*u].arch == f.ai);
                    (uid, false)
                } else if typed {
                    // unchecked conversion with a foreign id byte: the archetype is given by the
                    // type; position and generation are what is compared (see DESIGN.md, C03)
                    let want = ((e.raw().0 & !0xFF) | a.id() as u32, e.raw().1);
                    let uid = m.issued.get(&want).copied().filter(|u| m.ents[*u].alive && m.ents[*u].arch == f.ai);
                    (uid, true)
                } else {
                    (None, false)
                }
            }
            Key::Direct(d, _) | Key::DirectAny(d) => {
                // bit-identical to a currently valid direct handle of this archetype?
                let (idb, idx, ver) = direct_parts(d);
                let dump = a.dump(&self.sl(wi).w);
                let typed_unchecked = matches!(f.key, Key::Direct(_, true));
                if ver == dump.version && (idx as usize) < dump.len && (idb == a.id() || typed_unchecked) {
                    let raw = dump.entities[idx as usize];
                    (self.sl(wi).m.issued.get(&raw).copied(), idb != a.id())
                } else {
                    (None, false)
                }
            }
        }
    }

    pub fn forge_step(&mut self, wi: usize, pc: &mut ProbeCounts) {
        if self.rep.failed() {
            return;
        }
        let mut cands = self.forge_candidates(wi);
        if self.prof.api_subset < N_LOOKUPS {
            // interpreter scale: a random handful of the candidates per step
            while cands.len() > 5 {
                let i = self.rng.below(cands.len());
                cands.swap_remove(i);
            }
        }
        let debug = cfg!(debug_assertions);
        for f in cands {
            let a = self.archs[f.ai];
            let (expect, id_mismatch) = self.forge_expect(wi, &f);
            let napi = if self.prof.api_subset < N_LOOKUPS { 2 } else { N_LOOKUPS };
            let start = self.rng.below(N_LOOKUPS);
            for j in 0..napi {
                let api = (start + j) % N_LOOKUPS;
                self.rep.log_op(format!("w{} forge class={} arch={} api={} key={:?}", self.sl(wi).m.id, f.class, a.name(), LOOKUP_NAMES[api], f.key));
                let res = {
                    let s = self.worlds[wi].as_mut().unwrap();
                    guard(|| a.lookup(&mut s.w, api, f.key))
                };
                let outcome = match &res {
                    Ok(Some(_)) => "accepted",
                    Ok(None) => "absent",
                    Err(_) => "panic",
                };
                self.rep.count(&format!("forge|{}|{}", f.class, outcome));
                let ch = f.class.bytes().fold(FNV1, |h, b| crate::report::fnv(h, b as u64));
                self.rep.seen("forge_class_api_outcome", crate::report::fnv(ch, (api * 8 + f.key.kind() * 2) as u64 + outcome.len() as u64 * 1000));
                match res {
                    Ok(Some(found)) => match expect {
                        Some(uid) => {
                            if id_mismatch {
                                self.rep.count("forge.id_byte_mismatch_accepted");
                            }
                            let kind = f.key.kind();
                            self.judge_found(wi, uid, api, kind, &found, pc);
                            if self.rep.failed() {
                                // re-tag: this is a forged-handle observation
                                if let Some(v) = self.rep.violation.as_mut() {
                                    if !v.tags.contains(&"C03") {
                                        v.tags.push("C03");
                                    }
                                }
                                return;
                            }
                        }
                        None => {
                            self.viol(Some(wi), &["C03"], "forge-accepted", format!("{}: {} accepted forged {:?} (class {}) which is not the handle of a live entity of that archetype", a.name(), LOOKUP_NAMES[api], f.key, f.class));
                            return;
                        }
                    },
                    Ok(None) => {
                        if let (Some(uid), false) = (expect, id_mismatch) {
                            self.viol(Some(wi), &["C03", "C01"], "forge-rejected", format!("{}: {} rejected {:?} although it is bit-identical to the handle of live uid {uid}", a.name(), LOOKUP_NAMES[api], f.key));
                            return;
                        }
                    }
                    Err(c) => {
                        self.rep.seen("forge_panic_messages", c.msg().bytes().fold(FNV1, |h, b| crate::report::fnv(h, b as u64)));
                        // a clean panic is allowed for values the world did not issue; for a value
                        // bit-identical to a live handle it is not
                        let ok_panic = expect.is_none() || id_mismatch;
                        if !ok_panic {
                            self.viol(Some(wi), &["C03", "C01"], "forge-panic", format!("{}: {} panicked on {:?}, bit-identical to a live handle: {}", a.name(), LOOKUP_NAMES[api], f.key, c.msg()));
                            return;
                        }
                        if !debug && !(c.contains("invalid entity type") || c.contains("invalid entity conversion")) {
                            // without debug assertions only the documented dispatch panics exist
                            self.rep.count("forge.release_panic_other");
                        }
                    }
                }
            }
            // destroy with a forged key (sometimes): must be a no-op unless it designates a live entity
            if self.rng.chance(1, 6) {
                let level = self.rng.below(2);
                let len_before: Vec<usize> = (0..self.archs.len()).map(|i| self.archs[i].len(&self.sl(wi).w)).collect();
                self.rep.log_op(format!("w{} forge-destroy class={} arch={} level={} key={:?}", self.sl(wi).m.id, f.class, a.name(), DESTROY_NAMES[level], f.key));
                let res = {
                    let s = self.worlds[wi].as_mut().unwrap();
                    guard(|| a.destroy(&mut s.w, level, f.key))
                };
                match res {
                    Ok(DestroyOut::Destroyed(back)) => {
                        self.rep.count(&format!("forge-destroy|{}|destroyed", f.class));
                        match expect {
                            Some(uid) => {
                                let row = self.sl(wi).m.ents[uid].row.clone();
                                if let Some(b) = back {
                                    if b != row {
                                        self.viol(Some(wi), &["C03", "C02"], "forge-destroy", format!("{}: destroy({:?}) returned {:?}, expected {:?}", a.name(), f.key, b, row));
                                        return;
                                    }
                                }
                                let step = self.rep.step;
                                self.slot(wi).m.remove(uid, step);
                            }
                            None => {
                                self.viol(Some(wi), &["C03"], "forge-destroy", format!("{}: destroy accepted forged {:?} (class {})", a.name(), f.key, f.class));
                                return;
                            }
                        }
                    }
                    Ok(DestroyOut::Absent) => {
                        self.rep.count(&format!("forge-destroy|{}|absent", f.class));
                        if let (Some(uid), false) = (expect, id_mismatch) {
                            self.viol(Some(wi), &["C03", "C01"], "forge-destroy", format!("{}: destroy rejected {:?}, bit-identical to live uid {uid}", a.name(), f.key));
                            return;
                        }
                        let len_after: Vec<usize> = (0..self.archs.len()).map(|i| self.archs[i].len(&self.sl(wi).w)).collect();
                        if len_after != len_before {
                            self.viol(Some(wi), &["C03"], "forge-destroy", "a rejected forged destroy changed a len()".into());
                            return;
                        }
                    }
                    Err(c) => {
                        self.rep.count(&format!("forge-destroy|{}|panic", f.class));
                        if expect.is_some() && !id_mismatch {
                            self.viol(Some(wi), &["C03", "C01"], "forge-destroy", format!("{}: destroy panicked on a valid handle: {}", a.name(), c.msg()));
                            return;
                        }
                    }
                }
            }
        }
    }
}

/// (archetype id, dense index, version) of a direct handle, read off its Debug form (the
/// type has no raw accessor).
pub fn direct_parts(d: EntityDirectAny) -> (u8, u32, u32) {
    let s = format!("{:?}", d);
    let nums: Vec<u64> = s.split(|c: char| !c.is_ascii_digit()).filter(|t| !t.is_empty()).map(|t| t.parse().unwrap()).collect();
    (nums[0] as u8, nums[1] as u32, nums[2] as u32)
}

const FNV1: u64 = crate::report::FNV0;

pub fn run_forge<W: WorldOps>(seed: u64, stream: u64, ops: usize, small: bool) -> crate::report::Report {
    let mut prof = profile("churn").unwrap();
    prof.name = "forge";
    prof.full_every = 24;
    prof.iter_every = 12;
    prof.w_hot_slot = 0;
    if small {
        prof.max_pop = 6;
        prof.sample = 0;
        prof.api_subset = 2;
        prof.inv_all = false;
        prof.full_every = usize::MAX;
        prof.iter_every = 64;
    }
    let mut e: Engine<W> = Engine::new(seed, stream, prof);
    let mut pc = ProbeCounts::default();
    e.new_world();
    let mut step = 0;
    while step < ops && !e.rep.failed() {
        e.rep.step = step;
        step_once(&mut e, &mut pc, small);
        for wi in e.live_worlds() {
            if e.rng.chance(2, 3) {
                e.forge_step(wi, &mut pc);
                // after forged calls (and possibly caught panics) the world must be intact
                if !e.rep.failed() && step % 4 == 0 {
                    for ai in 0..e.archs.len() {
                        e.check_invariants(wi, ai);
                    }
                    e.probe(wi, false, &[], &mut pc);
                }
            }
        }
        step += 1;
    }
    e.rep.step = step;
    // forged-call panics are expected; they must not be reported as C10 context
    finish(&mut e, &mut pc);
    flush_counts(&mut e, &pc);
    e.rep
}
