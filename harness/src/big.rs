//! Hook-free boundary runs for the thorough tier: the 2^24 capacity limit (C12, C10) and a
//! real 2^32-cycle generation overflow (C08, C10, C19). No model, no registry: the claims
//! checked here are the simple ones that only show at the boundary.

use crate::guard::guard;
use crate::report::Report;
use gecs::prelude::*;

pub struct Tiny(pub u8);
pub struct Word(pub u64);

ecs_world! {
    ecs_name!(BigWorld);
    ecs_archetype!(Big, Tiny);
    #[archetype_id(255)]
    ecs_archetype!(Cyc, Word);
}

const MAX: usize = 1 << 24;

pub fn run_bigcap(mode: u64) -> Report {
    let mut rep = Report::new();
    let mut fail = |rep: &mut Report, m: String| rep.violate(&["C12"], "capacity-limit", m);
    // with_capacity beyond the limit must panic cleanly
    let r = guard(|| BigWorld::with_capacity(BigWorldCapacity { big: MAX + 1, cyc: 0 }));
    match r {
        Err(c) if c.contains("capacity may not exceed") => rep.count("with_capacity_over_limit_panicked"),
        Err(c) => fail(&mut rep, format!("with_capacity(2^24+1): unexpected panic {}", c.msg())),
        Ok(_) => fail(&mut rep, "with_capacity(2^24+1) did not panic".into()),
    }
    let built = guard(|| {
        if mode == 0 {
            BigWorld::with_capacity(BigWorldCapacity { big: MAX, cyc: 0 })
        } else if mode == 1 {
            BigWorld::with_capacity(BigWorldCapacity { big: MAX - 1, cyc: 0 })
        } else {
            BigWorld::new()
        }
    });
    let mut w = match built {
        Ok(w) => w,
        Err(c) => {
            fail(&mut rep, format!("mode {mode}: constructing a world with a legal initial capacity (<= 2^24) panicked: {}", c.msg()));
            return rep;
        }
    };
    let cap0 = w.big.capacity();
    if mode == 0 && cap0 != MAX {
        fail(&mut rep, format!("with_capacity(2^24) gave capacity {cap0}"));
    }
    let mut first = None;
    let mut last = None;
    let mut caps_seen = 1u64;
    let mut prev_cap = cap0;
    let before = valloc::counts();
    for i in 0..MAX {
        let e = if mode == 0 {
            match w.big.create_within_capacity((Tiny(i as u8),)) {
                Ok(e) => e,
                Err(_) => {
                    fail(&mut rep, format!("create_within_capacity failed at len {i} < capacity 2^24"));
                    return rep;
                }
            }
        } else {
            match guard(|| w.create::<Big>((Tiny(i as u8),))) {
                Ok(e) => e,
                Err(c) => {
                    fail(&mut rep, format!("create panicked at len {i} < 2^24 (capacity {}): {}", w.big.capacity(), c.msg()));
                    return rep;
                }
            }
        };
        if i == 0 {
            first = Some(e);
        }
        last = Some(e);
        let c = w.big.capacity();
        if c != prev_cap {
            if c < prev_cap || c > MAX {
                fail(&mut rep, format!("capacity went {prev_cap} -> {c}"));
                return rep;
            }
            caps_seen += 1;
            prev_cap = c;
        }
        rep.step += 1;
    }
    let after = valloc::counts();
    if mode == 0 && (after.allocs != before.allocs || after.reallocs != before.reallocs) {
        fail(&mut rep, "creating 2^24 entities after with_capacity(2^24) called the allocator".into());
    }
    rep.add("growth_steps", caps_seen);
    if w.big.len() != MAX || w.big.capacity() != MAX {
        fail(&mut rep, format!("len {} capacity {} after 2^24 creations", w.big.len(), w.big.capacity()));
    }
    let (first, last) = (first.unwrap(), last.unwrap());
    if last.into_any().raw().0 >> 8 != (MAX - 1) as u32 {
        rep.count("last_position_not_2^24-1");
    }
    // one more: within-capacity refuses and returns the argument, create panics cleanly
    match w.big.create_within_capacity((Tiny(77),)) {
        Err(c) if c.tiny.0 == 77 => rep.count("within_capacity_refused_at_limit"),
        Err(_) => fail(&mut rep, "Err() carried another component".into()),
        Ok(_) => fail(&mut rep, "create_within_capacity succeeded at 2^24".into()),
    }
    let r = guard(|| w.create::<Big>((Tiny(1),)));
    match r {
        Err(c) if c.contains("capacity overflow") => rep.count("create_at_limit_panicked"),
        Err(c) => fail(&mut rep, format!("create at 2^24: unexpected panic {}", c.msg())),
        Ok(_) => fail(&mut rep, "create at 2^24 entities did not panic".into()),
    }
    // nothing corrupted: both ends resolve with their values, len intact, a freed position is reusable
    let ok = w.big.len() == MAX
        && w.contains(first)
        && w.contains(last)
        && ecs_find!(w, last, |t: &Tiny| t.0) == Some((MAX - 1) as u8)
        && ecs_find!(w, first.into_any(), |t: &Tiny| t.0) == Some(0);
    if !ok {
        rep.violate(&["C12", "C10"], "capacity-limit", "state damaged after the capacity-overflow panic".into());
    }
    let mut n = 0usize;
    let mut sum = 0u64;
    ecs_iter!(w, |t: &Tiny| {
        n += 1;
        sum += t.0 as u64;
    });
    if n != MAX || sum != (MAX as u64 / 256) * (255 * 256 / 2) {
        rep.violate(&["C12", "C06"], "capacity-limit", format!("iteration over 2^24 entities visited {n}, sum {sum}"));
    }
    if w.destroy(first).is_none() || w.big.len() != MAX - 1 {
        fail(&mut rep, "destroy at the limit failed".into());
    }
    match w.big.create_within_capacity((Tiny(9),)) {
        Ok(e) => {
            if !w.contains(e) || w.contains(first) || e == first {
                rep.violate(&["C12", "C01", "C08"], "capacity-limit", "reused position at the limit misbehaves".into());
            }
            if e.into_any().archetype_id() != 0 || EntityAny::from_raw(e.into_any().raw()).ok() != Some(e.into_any()) {
                rep.violate(&["C14"], "capacity-limit", "handle packing at a large position".into());
            }
        }
        Err(_) => fail(&mut rep, "the position freed at the limit is not reusable".into()),
    }
    drop(w);
    rep.sample(format!("mode {mode}: 2^24 creations from initial capacity {cap0}, then the limit cases"));
    rep
}

/// 2^32 - 1 real create/destroy cycles on one storage position, no hook.
pub fn run_realoverflow() -> Report {
    let mut rep = Report::new();
    let wrapping = cfg!(feature = "wrapping_version");
    let mut w = BigWorld::with_capacity(BigWorldCapacity { big: 0, cyc: 1 });
    let first = w.create::<Cyc>((Word(0),));
    drop(w.destroy(first));
    let mut cycles: u64 = 1;
    let limit: u64 = u32::MAX as u64 - 1; // after this many releases the generation is u32::MAX
    let mut e = first;
    while cycles < limit {
        e = w.cyc.create((Word(cycles),));
        if w.cyc.destroy(e).is_none() {
            rep.violate(&["C08", "C01"], "real-overflow", format!("destroy failed in cycle {cycles}"));
            return rep;
        }
        cycles += 1;
    }
    rep.step = cycles as usize;
    let e = w.create::<Cyc>((Word(42),));
    let gen = e.into_any().raw().1;
    rep.maxi("max_generation_seen", gen as u64);
    if gen != u32::MAX {
        rep.violate(&["C08"], "real-overflow", format!("generation after 2^32-2 releases is {gen}"));
    }
    if w.contains(first) {
        rep.violate(&["C01", "C08"], "real-overflow", "the very first handle resolves again".into());
    }
    let r = guard(|| w.destroy(e));
    if !wrapping {
        match r {
            Err(c) if c.contains("version overflow") => rep.count("overflow_panicked"),
            Err(c) => rep.violate(&["C08", "C10"], "real-overflow", format!("unexpected panic {}", c.msg())),
            Ok(_) => rep.violate(&["C08"], "real-overflow", "the overflowing destroy did not panic".into()),
        }
        // C10: fully present afterwards
        let mut seen = Vec::new();
        ecs_iter!(w, |x: &Word| seen.push(x.0));
        if w.cyc.len() != 1 || !w.contains(e) || seen != vec![42] || ecs_find!(w, e, |x: &Word| x.0) != Some(42) {
            rep.violate(&["C10"], "real-overflow", format!("after the overflow panic: len {} contains {} iter {:?}", w.cyc.len(), w.contains(e), seen));
        }
        let again = guard(|| w.destroy(e));
        if again.is_ok() {
            rep.violate(&["C08", "C10"], "real-overflow", "second destroy of the saturated entity did not panic".into());
        }
    } else {
        match r {
            Ok(Some(_)) => rep.count("wrapped_without_panic"),
            other => rep.violate(&["C19", "C08"], "real-overflow", format!("wrapping_version: destroy at the boundary gave {:?}", other.map(|o| o.is_some()))),
        }
        let n = w.create::<Cyc>((Word(7),));
        if n.into_any().raw().1 != 1 {
            rep.violate(&["C19"], "real-overflow", format!("generation after wrap is {}", n.into_any().raw().1));
        }
        // documented exception: the first handle (generation 1) matches again; no UB, own data
        if w.contains(first) {
            rep.count("ancient_handle_matches_after_wrap");
            if ecs_find!(w, first, |x: &Word| x.0) != Some(7) {
                rep.violate(&["C19"], "real-overflow", "ancient handle reads foreign data".into());
            }
        }
    }
    drop(w);
    rep.sample("2^32-2 create/destroy cycles on one position of a capacity-1 archetype, then the boundary".into());
    rep
}
