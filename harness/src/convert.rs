//! Handle conversions (C14): lossless, type-faithful, consistent with Eq/Hash. Pure
//! functions judged by direct assertions over boundary and random values, all 256 ids.

use crate::guard::guard;
use crate::payload::*;
use crate::report::Report;
use crate::rng::Rng;
use crate::worlds::wmain::*;
use gecs::prelude::*;
use std::collections::hash_map::DefaultHasher;
use std::collections::HashSet;
use std::hash::{Hash, Hasher};

static SMALL: std::sync::atomic::AtomicBool = std::sync::atomic::AtomicBool::new(false);

fn h64<T: Hash>(t: &T) -> u64 {
    let mut h = DefaultHasher::new();
    t.hash(&mut h);
    h.finish()
}

fn check_typed<A: Archetype>(rep: &mut Report, any: EntityAny, name: &str) {
    let matches = any.archetype_id() == A::ARCHETYPE_ID;
    let t = Entity::<A>::try_from(any);
    rep.count("typed_conversions");
    match &t {
        Ok(e) => {
            if !matches {
                rep.violate(&["C14"], "convert", format!("Entity<{name}>::try_from({:?}) is Ok although the id differs", any.raw()));
            }
            let back: EntityAny = (*e).into();
            if back != any || e.into_any() != any || back.raw() != any.raw() {
                rep.violate(&["C14"], "convert", format!("Entity<{name}> round trip changed {:?} into {:?}", any.raw(), back.raw()));
            }
            if e.archetype_id() != A::ARCHETYPE_ID || e.archetype_id() != any.archetype_id() {
                rep.violate(&["C14"], "convert", format!("Entity<{name}>::archetype_id() disagrees"));
            }
            let r: &EntityAny = e.into();
            if *r != any {
                rep.violate(&["C14"], "convert", format!("&Entity<{name}> -> &EntityAny changed the value"));
            }
            let mut m = *e;
            let rm: &mut EntityAny = (&mut m).into();
            if *rm != any {
                rep.violate(&["C14"], "convert", format!("&mut Entity<{name}> -> &mut EntityAny changed the value"));
            }
            if h64(e) != h64(&any) && false {
                // typed and dynamic handles are different types; equal hashes are not required
            }
            let e2 = Entity::<A>::from_any(any);
            if e2 != *e || h64(&e2) != h64(e) {
                rep.violate(&["C14"], "convert", "from_any and try_from disagree / equal handles hash differently".into());
            }
        }
        Err(err) => {
            if matches {
                rep.violate(&["C14"], "convert", format!("Entity<{name}>::try_from({:?}) failed although the id matches", any.raw()));
            }
            if *err != gecs::error::EcsError::InvalidEntityType {
                rep.violate(&["C14"], "convert", "wrong error kind from try_from".into());
            }
        }
    }
    // under the interpreter only a sixth of the (slow) mismatch panics are provoked
    if !matches && SMALL.load(std::sync::atomic::Ordering::Relaxed) && (any.raw().0 >> 8) % 6 != 1 {
        return;
    }
    let p = guard(|| Entity::<A>::from_any(any));
    if p.is_err() == matches {
        rep.violate(&["C14"], "convert", format!("Entity<{name}>::from_any({:?}) panicked={} but id matches={matches}", any.raw(), p.is_err()));
    }
}

fn check_typed_direct<A: Archetype>(rep: &mut Report, d: EntityDirectAny, minted_by: u8, name: &str) {
    // ground truth is the archetype that minted the handle, not what the handle says about itself
    let matches = minted_by == A::ARCHETYPE_ID;
    if d.archetype_id() != minted_by {
        rep.violate(&["C14"], "convert", format!("{:?} was minted by archetype id {minted_by} but archetype_id() says {}", d, d.archetype_id()));
    }
    rep.count("typed_direct_conversions");
    match EntityDirect::<A>::try_from(d) {
        Ok(e) => {
            if !matches {
                rep.violate(&["C14"], "convert", format!("EntityDirect<{name}>::try_from({:?}) is Ok although the id differs", d));
            }
            let back: EntityDirectAny = e.into();
            if back != d || e.into_any() != d || crate::forge::direct_parts(back) != crate::forge::direct_parts(d) {
                rep.violate(&["C14"], "convert", format!("EntityDirect<{name}> round trip changed {:?}", d));
            }
            let r: &EntityDirectAny = (&e).into();
            if *r != d || e.archetype_id() != A::ARCHETYPE_ID {
                rep.violate(&["C14"], "convert", format!("&EntityDirect<{name}> -> &EntityDirectAny changed the value"));
            }
            let mut m = e;
            {
                let rm: &mut EntityDirectAny = (&mut m).into();
                if *rm != d {
                    rep.violate(&["C14"], "convert", format!("&mut EntityDirect<{name}> -> &mut EntityDirectAny changed the value"));
                }
            }
            if EntityDirect::<A>::from_any(d) != e || h64(&EntityDirect::<A>::from_any(d)) != h64(&e) {
                rep.violate(&["C14"], "convert", "direct from_any and try_from disagree".into());
            }
        }
        Err(_) => {
            if matches {
                rep.violate(&["C14"], "convert", format!("EntityDirect<{name}>::try_from({:?}) failed although the id matches", d));
            }
        }
    }
    if !matches && SMALL.load(std::sync::atomic::Ordering::Relaxed) && crate::forge::direct_parts(d).1 % 3 != 0 {
        return;
    }
    let p = guard(|| EntityDirect::<A>::from_any(d));
    if p.is_err() == matches {
        rep.violate(&["C14"], "convert", format!("EntityDirect<{name}>::from_any({:?}) panicked={}", d, p.is_err()));
    }
}

macro_rules! for_archs {
    ($m:ident!($($args:tt)*)) => {
        $m!($($args)*, ArchOne);
        $m!($($args)*, ArchTwo);
        $m!($($args)*, ArchHeap);
        $m!($($args)*, ArchAlign);
        $m!($($args)*, ArchWide);
        $m!($($args)*, ArchTwin);
        $m!($($args)*, ArchEmpty);
        #[cfg(feature = "c32")]
        {
            $m!($($args)*, ArchXvii);
            $m!($($args)*, ArchXxxii);
        }
    };
}

fn declared_ids() -> Vec<u8> {
    let mut v = Vec::new();
    macro_rules! push_id { ($v:ident, $A:ident) => { $v.push(<$A as Archetype>::ARCHETYPE_ID); }; }
    for_archs!(push_id!(v));
    v
}

fn check_any(rep: &mut Report, raw: (u32, u32), declared: &[u8]) {
    rep.step += 1;
    let r = EntityAny::from_raw(raw);
    if r.is_err() != (raw.1 == 0) {
        rep.violate(&["C14"], "from-raw", format!("from_raw({:?}) is_err={} ", raw, r.is_err()));
        return;
    }
    let Ok(any) = r else {
        rep.count("from_raw_rejected");
        return;
    };
    if any.raw() != raw || EntityAny::from_raw(any.raw()).ok() != Some(any) {
        rep.violate(&["C14"], "from-raw", format!("raw round trip changed {:?} into {:?}", raw, any.raw()));
    }
    if any.archetype_id() != (raw.0 & 0xFF) as u8 {
        rep.violate(&["C14"], "convert", format!("archetype_id() {} != low byte of key {:#x}", any.archetype_id(), raw.0));
    }
    if any.into_any() != any {
        rep.violate(&["C14"], "convert", "EntityAny::into_any changed the value".into());
    }
    macro_rules! typed { ($rep:ident, $any:ident, $A:ident) => { check_typed::<$A>($rep, $any, stringify!($A)); }; }
    for_archs!(typed!(rep, any));
    // Select* dispatch tables
    let is_declared = declared.contains(&any.archetype_id());
    match SelectEntity::try_from(any) {
        Ok(sel) => {
            if !is_declared {
                rep.violate(&["C14", "C15"], "select", format!("SelectEntity accepted undeclared id {}", any.archetype_id()));
            }
            macro_rules! sel_arm { ($sel:ident, $any:ident, $rep:ident, $A:ident) => {
                if let SelectEntity::$A(e) = $sel {
                    if e.into_any() != $any || <$A as Archetype>::ARCHETYPE_ID != $any.archetype_id() {
                        $rep.violate(&["C14", "C15"], "select", format!("SelectEntity::{} holds {:?} for {:?}", stringify!($A), e.into_any().raw(), $any.raw()));
                    }
                    let s2: SelectEntity = e.into();
                    let s3: SelectEntity = (&e).into();
                    if !matches!(s2, SelectEntity::$A(x) if x == e) || !matches!(s3, SelectEntity::$A(x) if x == e) {
                        $rep.violate(&["C14"], "select", "From<Entity<A>> for SelectEntity picked another variant".into());
                    }
                    let sa: SelectArchetype = e.into();
                    if sa.archetype_id() != $any.archetype_id() {
                        $rep.violate(&["C14", "C15"], "select", "SelectArchetype::from(entity).archetype_id() differs".into());
                    }
                }
            }; }
            for_archs!(sel_arm!(sel, any, rep));
            rep.count("select_entity_ok");
        }
        Err(e) => {
            if is_declared || e != gecs::error::EcsError::InvalidEntityType {
                rep.violate(&["C14", "C15"], "select", format!("SelectEntity rejected declared id {}", any.archetype_id()));
            }
            rep.count("select_entity_err");
        }
    }
    match SelectArchetype::try_from(any) {
        Ok(sa) => {
            if !is_declared || sa.archetype_id() != any.archetype_id() {
                rep.violate(&["C14", "C15"], "select", format!("SelectArchetype::try_from(entity) gave id {} for {}", sa.archetype_id(), any.archetype_id()));
            }
        }
        Err(_) => {
            if is_declared {
                rep.violate(&["C14", "C15"], "select", "SelectArchetype rejected a declared id".into());
            }
        }
    }
}

fn check_eq_hash(rep: &mut Report, rng: &mut Rng) {
    // pairs that differ in exactly one of the compared parts, and exact copies
    let (k, g) = (rng.next() as u32, (rng.next() as u32).max(1));
    let variants = [(k, g), (k ^ 1, g), (k ^ 0x100, g), (k ^ 0x8000_0000, g), (k, g ^ 1 | 2), (g, k.max(1)), (k, g)];
    let hs: Vec<EntityAny> = variants.iter().filter_map(|r| EntityAny::from_raw(*r).ok()).collect();
    let mut set = HashSet::new();
    for a in hs.iter() {
        set.insert(*a);
        for b in hs.iter() {
            rep.count("eq_pairs");
            if (a == b) != (a.raw() == b.raw()) {
                rep.violate(&["C14"], "eq", format!("{:?} == {:?} is {}", a.raw(), b.raw(), a == b));
            }
            if a == b && h64(a) != h64(b) {
                rep.violate(&["C14"], "hash", format!("equal handles {:?} hash differently", a.raw()));
            }
        }
    }
    for a in hs.iter() {
        for b in hs.iter() {
            macro_rules! typed_eq_s { ($rep:ident, $a:ident, $b:ident, $A:ident) => {
                if let (Ok(t1), Ok(t2)) = (Entity::<$A>::try_from(*$a), Entity::<$A>::try_from(*$b)) {
                    if (t1 == t2) != (*$a == *$b) || (t1 == t2 && h64(&t1) != h64(&t2)) {
                        $rep.violate(&["C14"], "eq", format!("Entity<{}>: {:?} == {:?} is {}", stringify!($A), $a.raw(), $b.raw(), t1 == t2));
                    }
                }
            }; }
            for_archs!(typed_eq_s!(rep, a, b));
        }
    }
    let distinct: HashSet<(u32, u32)> = hs.iter().map(|h| h.raw()).collect();
    if set.len() != distinct.len() {
        rep.violate(&["C14"], "hash", format!("HashSet holds {} handles for {} distinct values", set.len(), distinct.len()));
    }
}

pub fn run_convert(seed: u64, shard: u64, n: usize, small: bool) -> Report {
    let mut rep = Report::new();
    SMALL.store(small, std::sync::atomic::Ordering::Relaxed);
    let mut rng = Rng::new(seed, shard);
    let declared = declared_ids();
    rep.add("declared_archetype_ids", declared.len() as u64);
    // SelectArchetype::try_from(id) over all 256 ids
    for id in 0..=255u8 {
        let r = SelectArchetype::try_from(id);
        rep.count("select_archetype_ids_checked");
        match r {
            Ok(sa) => {
                if !declared.contains(&id) || sa.archetype_id() != id {
                    rep.violate(&["C14", "C15"], "select", format!("SelectArchetype::try_from({id}) -> id {}", sa.archetype_id()));
                }
            }
            Err(_) => {
                if declared.contains(&id) {
                    rep.violate(&["C14", "C15"], "select", format!("SelectArchetype::try_from({id}) failed for a declared id"));
                }
            }
        }
    }
    let positions = [0u32, 1, 2, 255, 256, (1 << 24) - 2, (1 << 24) - 1];
    let gens = [0u32, 1, 2, 1 << 31, u32::MAX - 1, u32::MAX];
    // boundary cross product with every id byte
    // interpreter scale: declared ids plus a few undeclared ones instead of all 256
    let ids: Vec<u32> = if small { declared.iter().map(|d| *d as u32).chain([2u32, 100, 253]).collect() } else { (0..=255u32).collect() };
    let positions_b: Vec<u32> = if small { vec![1, (1 << 24) - 1] } else { positions.to_vec() };
    let gens_b: Vec<u32> = if small { vec![0, 1, u32::MAX] } else { gens.to_vec() };
    for pos in positions_b {
        for id in ids.iter().copied() {
            for g in gens_b.iter().copied() {
                check_any(&mut rep, ((pos << 8) | id, g), &declared);
                rep.seen("boundary_values", ((pos as u64) << 40) | (id as u64) << 32 | g as u64);
                if rep.failed() {
                    return rep;
                }
            }
        }
    }
    for i in 0..n {
        let raw = match i % 4 {
            0 => (rng.next() as u32, rng.next() as u32),
            1 => ((rng.next() as u32 & !0xFF) | *rng.pick(&declared) as u32, (rng.next() as u32).max(1)),
            2 => ((*rng.pick(&positions) << 8) | (rng.next() as u32 & 0xFF), *rng.pick(&gens)),
            _ => (rng.next() as u32, (rng.next() % 3) as u32),
        };
        check_any(&mut rep, raw, &declared);
        if i % 16 == 0 {
            check_eq_hash(&mut rep, &mut rng);
        }
        if rep.failed() {
            return rep;
        }
    }
    // direct handles: minted by real worlds at several (index, version) combinations
    let mut w = WMain::new();
    let mut directs: Vec<EntityDirectAny> = Vec::new();
    let mut minted: Vec<u8> = Vec::new();
    for round in 0..(if small { 2 } else { 6 }) {
        let mut es = Vec::new();
        for i in 0..(3 + round) {
            let t = with_reg(|r| r.new_token());
            es.push(w.create::<ArchOne>((make_cell::<Pa>((t, i as u64)),)));
            let t2 = with_reg(|r| r.new_token());
            let e2 = w.create::<ArchTwin>((Za::make(0, 0), make_cell::<Pb>((t2, 0))));
            directs.push(w.to_direct(e2).unwrap().into_any());
            minted.push(<ArchTwin as Archetype>::ARCHETYPE_ID);
            let da: EntityDirectAny = w.to_direct(e2.into_any()).unwrap();
            if da != w.to_direct(e2).unwrap().into_any() {
                rep.violate(&["C14"], "convert", "to_direct(EntityAny) and to_direct(Entity<A>) differ".into());
            }
        }
        for e in es.iter() {
            directs.push(w.to_direct(*e).unwrap().into());
            minted.push(<ArchOne as Archetype>::ARCHETYPE_ID);
        }
        // a 16-column archetype with id 200 as well
        if round < 2 {
            let row: Vec<(u64, u64)> = (0..16).map(|i| (with_reg(|r| r.new_token()), i as u64)).collect();
            let ew = w.create::<ArchWide>((
                make_cell::<Pa>(row[0]), make_cell::<Pb>(row[1]), make_cell::<Pc>(row[2]), make_cell::<Pd>(row[3]),
                make_cell::<Pe>(row[4]), make_cell::<Pf>(row[5]), make_cell::<Pg>(row[6]), make_cell::<Ph>(row[7]),
                make_cell::<Ha>(row[8]), Zb::make(0, 0), make_cell::<Ls>(row[10]), make_cell::<Bn>(row[11]),
                Zn, make_cell::<Hb>(row[13]), make_cell::<Wt>(row[14]), make_cell::<Qs>(row[15]),
            ));
            directs.push(w.to_direct(ew).unwrap().into_any());
            minted.push(<ArchWide as Archetype>::ARCHETYPE_ID);
        }
        drop(w.destroy(es[0]));
    }
    let mut dset = HashSet::new();
    for (di, d) in directs.iter().enumerate() {
        dset.insert(*d);
        let by = minted[di];
        macro_rules! typed_d { ($rep:ident, $d:ident, $A:ident) => { check_typed_direct::<$A>(&mut $rep, *$d, by, stringify!($A)); }; }
        for_archs!(typed_d!(rep, d));
        match SelectEntityDirect::try_from(*d) {
            Ok(sel) => {
                macro_rules! seld_arm { ($sel:ident, $d:ident, $rep:ident, $A:ident) => {
                    if let SelectEntityDirect::$A(e) = $sel {
                        if e.into_any() != *$d || <$A as Archetype>::ARCHETYPE_ID != $d.archetype_id() {
                            $rep.violate(&["C14", "C15"], "select", format!("SelectEntityDirect::{} holds another handle", stringify!($A)));
                        }
                    }
                }; }
                for_archs!(seld_arm!(sel, d, rep));
                rep.count("select_entity_direct_ok");
            }
            Err(_) => rep.violate(&["C14", "C15"], "select", format!("SelectEntityDirect rejected {:?}", d)),
        }
        for d2 in directs.iter().take(if small { 4 } else { usize::MAX }) {
            let same = crate::forge::direct_parts(*d) == crate::forge::direct_parts(*d2);
            if (d == d2) != same || (same && h64(d) != h64(d2)) {
                rep.violate(&["C14"], "eq", format!("direct handles {:?} / {:?}: == is {}", d, d2, d == d2));
            }
            // the typed handles must compare (and hash) like the dynamic ones
            macro_rules! typed_eq { ($rep:ident, $d:ident, $d2:ident, $A:ident) => {
                if let (Ok(t1), Ok(t2)) = (EntityDirect::<$A>::try_from(*$d), EntityDirect::<$A>::try_from(*$d2)) {
                    if (t1 == t2) != (*$d == *$d2) || (t1 == t2 && h64(&t1) != h64(&t2)) {
                        $rep.violate(&["C14"], "eq", format!("EntityDirect<{}>: {:?} == {:?} is {} but the dynamic handles compare {}", stringify!($A), $d, $d2, t1 == t2, *$d == *$d2));
                    }
                }
            }; }
            for_archs!(typed_eq!(rep, d, d2));
        }
    }
    let distinct: HashSet<(u8, u32, u32)> = directs.iter().map(|d| crate::forge::direct_parts(*d)).collect();
    if dset.len() != distinct.len() {
        rep.violate(&["C14"], "hash", "HashSet of direct handles has a wrong size".into());
    }
    rep.add("direct_handles_checked", directs.len() as u64);
    drop(w);
    rep.sample(format!("boundary positions {:?} x ids 0..=255 x generations {:?}; then {n} random raw pairs", positions, gens));
    rep
}
