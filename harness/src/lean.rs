//! Lean workload for the interpreters (Miri, and ASan/valgrind at scale): the same kinds of
//! operations as the history engine, but with the cheapest possible monitor (a value
//! checksum per entity and a live-object counter), so that almost all interpreted time is
//! spent inside gecs's unsafe storage code. The memory oracles are the tools themselves:
//! Miri / ASan / memcheck for out-of-bounds, uninitialised, freed or aliased memory and
//! leaks; the counters catch double drops and leaks of zero-sized values.

use crate::guard::guard;
use crate::report::Report;
use crate::rng::Rng;
use gecs::prelude::*;
use std::cell::Cell;
use std::collections::BTreeMap;

thread_local! {
    static LIVE: Cell<i64> = const { Cell::new(0) };
    static ZLIVE: Cell<i64> = const { Cell::new(0) };
}

pub struct Lp(pub u64);
pub struct Lb(pub Box<u64>);
pub struct Ls(pub String);
pub struct Lz;
#[repr(align(32))]
pub struct La(pub u64);
pub struct Lt(pub u8);

macro_rules! counted {
    ($T:ident, $cell:ident, $clone:expr) => {
        impl Drop for $T {
            fn drop(&mut self) {
                $cell.with(|c| c.set(c.get() - 1));
            }
        }
        impl Clone for $T {
            fn clone(&self) -> Self {
                $cell.with(|c| c.set(c.get() + 1));
                let f: fn(&$T) -> $T = $clone;
                f(self)
            }
        }
    };
}
counted!(Lb, LIVE, |s| Lb(Box::new(*s.0)));
counted!(Ls, LIVE, |s| Ls(s.0.clone()));
counted!(Lz, ZLIVE, |_| Lz);
impl Clone for Lp {
    fn clone(&self) -> Self {
        Lp(self.0)
    }
}
impl Clone for La {
    fn clone(&self) -> Self {
        La(self.0)
    }
}
impl Clone for Lt {
    fn clone(&self) -> Self {
        Lt(self.0)
    }
}
fn mk_b(v: u64) -> Lb {
    LIVE.with(|c| c.set(c.get() + 1));
    Lb(Box::new(v))
}
fn mk_s(v: u64) -> Ls {
    LIVE.with(|c| c.set(c.get() + 1));
    Ls(format!("{v}"))
}
fn mk_z() -> Lz {
    ZLIVE.with(|c| c.set(c.get() + 1));
    Lz
}

ecs_world! {
    ecs_name!(LeanWorld);
    ecs_archetype!(LeanOne, Lp);
    #[archetype_id(9)]
    ecs_archetype!(LeanHeap, Lb, Lz, Ls);
    #[archetype_id(250)]
    ecs_archetype!(LeanMix, Lt, La, Lp, Lb, Lz);
}

/// value carried redundantly by every column of an entity
fn val_heap(b: &Lb, s: &Ls) -> Option<u64> {
    let v = *b.0;
    if s.0.parse::<u64>().ok() == Some(v) { Some(v) } else { None }
}
fn val_mix(t: &Lt, a: &La, p: &Lp, b: &Lb) -> Option<u64> {
    let v = p.0;
    if a.0 == v && *b.0 == v && t.0 == v as u8 { Some(v) } else { None }
}

struct State {
    w: LeanWorld,
    /// handle -> value, per archetype
    one: BTreeMap<(u32, u32), u64>,
    heap: BTreeMap<(u32, u32), u64>,
    mix: BTreeMap<(u32, u32), u64>,
    next: u64,
}

fn pick(rng: &mut Rng, m: &BTreeMap<(u32, u32), u64>) -> Option<((u32, u32), u64)> {
    if m.is_empty() {
        return None;
    }
    let i = rng.below(m.len());
    m.iter().nth(i).map(|(k, v)| (*k, *v))
}

fn any(raw: (u32, u32)) -> EntityAny {
    EntityAny::from_raw(raw).unwrap()
}

impl State {
    fn expected_live(&self) -> (i64, i64) {
        // Lb + Ls per heap entity, Lb per mix entity; Lz per heap and mix entity
        ((2 * self.heap.len() + self.mix.len()) as i64, (self.heap.len() + self.mix.len()) as i64)
    }

    fn check_all(&mut self, rep: &mut Report, what: &str) {
        let mut seen = 0usize;
        let mut bad: Option<String> = None;
        let one = &self.one;
        ecs_iter!(self.w, |e: &Entity<LeanOne>, p: &Lp| {
            seen += 1;
            if one.get(&e.into_any().raw()) != Some(&p.0) {
                bad = Some(format!("LeanOne {:?} holds {}", e.into_any().raw(), p.0));
            }
        });
        let heap = &self.heap;
        ecs_iter_borrow!(self.w, |e: &EntityAny, b: &Lb, s: &Ls, _z: &Lz, _x: &Entity<LeanHeap>| {
            seen += 1;
            if val_heap(b, s).is_none() || heap.get(&e.raw()) != val_heap(b, s).as_ref() {
                bad = Some(format!("LeanHeap {:?} holds {:?}/{}", e.raw(), b.0, s.0));
            }
        });
        let mix = &self.mix;
        for (e, t, a, p, b, _z) in self.w.lean_mix.iter() {
            seen += 1;
            if val_mix(t, a, p, b).is_none() || mix.get(&e.into_any().raw()) != val_mix(t, a, p, b).as_ref() {
                bad = Some(format!("LeanMix {:?} holds {}", e.into_any().raw(), p.0));
            }
        }
        let want = self.one.len() + self.heap.len() + self.mix.len();
        if seen != want || self.w.lean_one.len() + self.w.lean_heap.len() + self.w.lean_mix.len() != want {
            bad = Some(format!("iteration saw {seen} entities, len() sums to {}, expected {want}", self.w.lean_one.len() + self.w.lean_heap.len() + self.w.lean_mix.len()));
        }
        if let Some(b) = bad {
            rep.violate(&["ANY", "C02", "C06"], "lean", format!("{what}: {b}"));
        }
    }
}

pub fn run_lean(seed: u64, shard: u64, ops: usize) -> Report {
    let mut rep = Report::new();
    let mut rng = Rng::new(seed, shard);
    {
        let caps = [0usize, 1, 2, 3, 5, 8];
        let mut st = State {
            w: LeanWorld::with_capacity(LeanWorldCapacity { lean_one: *rng.pick(&caps), lean_heap: *rng.pick(&caps), lean_mix: *rng.pick(&caps) }),
            one: BTreeMap::new(),
            heap: BTreeMap::new(),
            mix: BTreeMap::new(),
            next: 1,
        };
        let mut spare: Option<State> = None;
        let mut directs: Vec<EntityDirectAny> = Vec::new();
        for step in 0..ops {
            rep.step = step + 1;
            let arch = rng.below(3);
            let op = rng.weighted(&[30, 8, 26, 6, 8, 6, 4, 5, 4, 3]);
            let r = guard(|| match op {
                // create
                0 | 1 => {
                    let v = st.next;
                    st.next += 1;
                    let within = op == 1;
                    match arch {
                        0 => {
                            let e = if within { st.w.create_within_capacity::<LeanOne>((Lp(v),)).ok() } else { Some(st.w.create::<LeanOne>((Lp(v),))) };
                            if let Some(e) = e {
                                st.one.insert(e.into_any().raw(), v);
                            }
                        }
                        1 => {
                            let c = (mk_b(v), mk_z(), mk_s(v));
                            let e = if within { st.w.lean_heap.create_within_capacity(c).ok() } else { Some(st.w.lean_heap.create(c)) };
                            if let Some(e) = e {
                                st.heap.insert(e.into_any().raw(), v);
                            }
                        }
                        _ => {
                            let c = (Lt(v as u8), La(v), Lp(v), mk_b(v), mk_z());
                            let e = if within { st.w.create_within_capacity::<LeanMix>(c).ok() } else { Some(st.w.create::<LeanMix>(c)) };
                            if let Some(e) = e {
                                st.mix.insert(e.into_any().raw(), v);
                            }
                        }
                    }
                }
                // destroy by a random key kind
                2 => {
                    let kind = rng.below(4);
                    let m = match arch {
                        0 => &mut st.one,
                        1 => &mut st.heap,
                        _ => &mut st.mix,
                    };
                    if let Some((raw, _)) = pick(&mut rng, m) {
                        m.remove(&raw);
                        let e = any(raw);
                        let ok = match kind {
                            0 => st.w.destroy(e).is_some(),
                            1 => st.w.to_direct(e).map(|d| st.w.destroy(d).is_some()).unwrap_or(false),
                            2 => match arch {
                                0 => st.w.destroy(Entity::<LeanOne>::from_any(e)).is_some(),
                                1 => st.w.destroy(Entity::<LeanHeap>::from_any(e)).is_some(),
                                _ => st.w.lean_mix.destroy(Entity::<LeanMix>::from_any(e)).is_some(),
                            },
                            _ => match arch {
                                0 => st.w.lean_one.destroy(e).is_some(),
                                1 => st.w.lean_heap.destroy(e).is_some(),
                                _ => st.w.lean_mix.destroy(e).is_some(),
                            },
                        };
                        if !ok {
                            panic!("lean: destroy of a live entity failed");
                        }
                    }
                }
                // stale and forged lookups
                3 => {
                    let raw = ((rng.next() as u32 % 16) << 8 | [0u32, 9, 250, 3][rng.below(4)], 1 + rng.next() as u32 % 4);
                    let live = st.one.contains_key(&raw) || st.heap.contains_key(&raw) || st.mix.contains_key(&raw);
                    let e = any(raw);
                    let r = guard(|| st.w.contains(e));
                    if let Ok(c) = r {
                        if c != live {
                            panic!("lean: contains({:?}) = {c}, live = {live}", raw);
                        }
                        let _ = ecs_find!(st.w, e, |_x: &EntityAny| ());
                        let _ = st.w.lean_heap.view(e).map(|v| *v.lb.0);
                    }
                    // direct handles may stem from a sibling world by now (clone / swap): foreign
                    // handles may be refused with a clean panic in builds with debug assertions
                    for d in directs.iter().rev().take(4) {
                        let _ = guard(|| st.w.contains(*d));
                        let _ = guard(|| ecs_find_borrow!(st.w, *d, |p: &Lp| p.0));
                    }
                }
                // writes through several paths
                4 => {
                    if let Some((raw, _)) = pick(&mut rng, &st.mix) {
                        let nv = st.next;
                        st.next += 1;
                        let e = any(raw);
                        match rng.below(3) {
                            0 => {
                                let mut v = st.w.lean_mix.view(e).unwrap();
                                v.lt.0 = nv as u8;
                                v.la.0 = nv;
                                v.component_mut::<Lp>().0 = nv;
                                *v.lb.0 = nv;
                            }
                            1 => {
                                ecs_find!(st.w, e, |t: &mut Lt, a: &mut La, p: &mut Lp, b: &mut Lb| {
                                    t.0 = nv as u8;
                                    a.0 = nv;
                                    p.0 = nv;
                                    *b.0 = nv;
                                });
                            }
                            _ => {
                                let b = st.w.borrow(Entity::<LeanMix>::from_any(e)).unwrap();
                                b.component_mut::<Lt>().0 = nv as u8;
                                b.component_mut::<La>().0 = nv;
                                b.component_mut::<Lp>().0 = nv;
                                *b.component_mut::<Lb>().0 = nv;
                            }
                        }
                        st.mix.insert(raw, nv);
                    }
                    if let Some((raw, _)) = pick(&mut rng, &st.heap) {
                        let nv = st.next;
                        st.next += 1;
                        let i = st.w.lean_heap.resolve(any(raw)).unwrap();
                        let s = st.w.lean_heap.get_all_slices_mut();
                        *s.lb[i].0 = nv;
                        s.ls[i].0 = format!("{nv}");
                        st.heap.insert(raw, nv);
                    }
                }
                // ecs_iter_destroy! with a value-dependent decision
                5 => {
                    let k = 2 + rng.below(4) as u64;
                    let brk = rng.chance(1, 4);
                    let mut gone: Vec<(u32, u32)> = Vec::new();
                    let mut stop = false;
                    ecs_iter_destroy!(st.w, |e: &EntityAny, d: &EntityDirectAny, b: &Lb, _z: &Lz| {
                        if stop {
                            panic!("lean: closure ran after a break");
                        }
                        directs.push(*d);
                        if *b.0 % k == 0 {
                            gone.push(e.raw());
                            if brk {
                                stop = true;
                                EcsStepDestroy::BreakDestroy
                            } else {
                                EcsStepDestroy::ContinueDestroy
                            }
                        } else {
                            EcsStepDestroy::Continue
                        }
                    });
                    for g in gone {
                        st.heap.remove(&g);
                        st.mix.remove(&g);
                    }
                    if directs.len() > 64 {
                        directs.drain(..32);
                    }
                }
                // clone; continue on the clone or on the original
                6 => {
                    let c = st.w.clone();
                    let other = State { w: c, one: st.one.clone(), heap: st.heap.clone(), mix: st.mix.clone(), next: st.next };
                    if rng.chance(1, 2) {
                        spare = Some(std::mem::replace(&mut st, other));
                    } else {
                        spare = Some(other);
                    }
                }
                // drop the spare world / swap to it
                7 => {
                    if rng.chance(1, 2) {
                        spare = None;
                    } else if let Some(mut o) = spare.take() {
                        o.next = o.next.max(st.next);
                        spare = Some(std::mem::replace(&mut st, o));
                    }
                }
                // drain one archetype completely, in dense order from a random end
                8 => {
                    let front = rng.chance(1, 2);
                    loop {
                        let ents = st.w.lean_heap.entities();
                        let Some(e) = (if front { ents.first() } else { ents.last() }).copied() else { break };
                        st.heap.remove(&e.into_any().raw());
                        drop(st.w.lean_heap.destroy(e));
                    }
                }
                // slices, borrow_slice and iter_mut reads
                _ => {
                    let mut sum = 0u64;
                    for p in st.w.lean_one.get_slice::<Lp>() {
                        sum = sum.wrapping_add(p.0);
                    }
                    for b in st.w.lean_heap.borrow_slice::<Lb>().iter() {
                        sum = sum.wrapping_add(*b.0);
                    }
                    for (e, t, _a, p, _b, _z) in st.w.lean_mix.iter_mut() {
                        t.0 = p.0 as u8;
                        if st.mix.get(&e.into_any().raw()) != Some(&p.0) {
                            panic!("lean: iter_mut paired {:?} with value {}", e.into_any().raw(), p.0);
                        }
                    }
                    let want: u64 = st.one.values().chain(st.heap.values()).fold(0u64, |a, b| a.wrapping_add(*b));
                    if sum != want {
                        panic!("lean: slice sums {sum} != {want}");
                    }
                }
            });
            if let Err(c) = r {
                rep.violate(&["ANY", "internal-assert"], "lean", format!("step {step} op {op} arch {arch}: {}", c.msg()));
                break;
            }
            rep.count(&format!("lean.op{op}"));
            if step % 16 == 0 {
                st.check_all(&mut rep, "periodic read-back");
            }
            let (want, zwant) = {
                let s2 = spare.as_ref().map(|s| s.expected_live()).unwrap_or((0, 0));
                let s1 = st.expected_live();
                (s1.0 + s2.0, s1.1 + s2.1)
            };
            let (have, zhave) = (LIVE.with(|c| c.get()), ZLIVE.with(|c| c.get()));
            if have != want || zhave != zwant {
                rep.violate(&["ANY", "C04"], "lean", format!("step {step} op {op}: {have} heap-owning / {zhave} zero-sized components alive, expected {want} / {zwant}"));
            }
            if rep.failed() {
                break;
            }
        }
        if !rep.failed() {
            st.check_all(&mut rep, "final read-back");
        }
        rep.add("lean.entities_created", st.next);
        drop(spare);
        drop(st);
    }
    let (have, zhave) = (LIVE.with(|c| c.get()), ZLIVE.with(|c| c.get()));
    if (have, zhave) != (0, 0) && !rep.failed() {
        rep.violate(&["ANY", "C04"], "lean", format!("{have} heap-owning / {zhave} zero-sized components alive after every world was dropped"));
    }
    rep.sample("lean: create / create_within_capacity / destroy (4 key kinds) / forged+stale lookups / writes via view, find, borrow, slices / ecs_iter_destroy! / clone / swap / drain / slice reads on three archetypes (1 plain column; Box+ZST+String; 5 columns with align 32)".into());
    rep
}
