//! Runtime-borrow matrix (C11): nested accesses through the runtime-borrowed API are opened
//! by a recursive interpreter; a shadow of std's RefCell rules (monitor B) says for every
//! inner access whether it must panic (it would alias a mutable reference) or must succeed.

use crate::guard::{guard, Caught};
use crate::payload::*;
use crate::report::Report;
use crate::rng::Rng;
use crate::worlds::wsmall::*;
use gecs::prelude::*;
use std::cell::RefCell;

#[derive(Clone, Copy, Debug, PartialEq, Eq)]
pub enum Op {
    FindBorrow,
    IterBorrow,
    Component,
    Slice,
    CloneWorld,
    /// `ecs_find_borrow!(w, typed key, |e: &Entity<A>, c: &(mut) OneOf<Pa, Pb>|)`: binds Pa in SmA (col 0), Pb in SmB (col 1)
    FindOneOf,
    /// `ecs_iter_borrow!(w, |e: &Entity<A>, c: &(mut) OneOf<Pa, Pb>|)`
    IterOneOf,
    /// `ecs_find_borrow!(w, EntityAny key, |e: &EntityAny, c: &(mut) Ha|)`: the query matches both archetypes, the key picks one
    FindAnyHa,
    /// `ecs_iter_borrow!(w, |e: &EntityAny, c: &(mut) Ha|)`: visits SmA (holding SmA.Ha) and then SmB (holding SmB.Ha)
    IterAllHa,
    /// pseudo access: panics; the panic unwinds through every borrow held above it
    Boom,
}

#[derive(Clone, Copy, Debug, PartialEq, Eq)]
pub struct Acc {
    pub op: Op,
    pub arch: usize, // 0 = SmA (Pa, Ha), 1 = SmB (Ha, Pb)
    pub col: usize,
    pub mutable: bool,
    pub ent: usize, // 0, 1 = live entities of the archetype, 2 = a stale handle
}

pub fn all_accesses() -> Vec<Acc> {
    let mut v = Vec::new();
    for arch in 0..2 {
        for col in 0..2 {
            for mutable in [false, true] {
                for ent in 0..3 {
                    v.push(Acc { op: Op::FindBorrow, arch, col, mutable, ent });
                    v.push(Acc { op: Op::Component, arch, col, mutable, ent });
                }
                v.push(Acc { op: Op::IterBorrow, arch, col, mutable, ent: 0 });
                v.push(Acc { op: Op::Slice, arch, col, mutable, ent: 0 });
            }
        }
    }
    v.push(Acc { op: Op::CloneWorld, arch: 0, col: 0, mutable: false, ent: 0 });
    for mutable in [false, true] {
        for arch in 0..2 {
            // OneOf<Pa, Pb> resolves to column 0 of SmA and column 1 of SmB; Ha is column 1 of SmA and column 0 of SmB
            for ent in 0..3 {
                v.push(Acc { op: Op::FindOneOf, arch, col: arch, mutable, ent });
                v.push(Acc { op: Op::FindAnyHa, arch, col: 1 - arch, mutable, ent });
            }
            v.push(Acc { op: Op::IterOneOf, arch, col: arch, mutable, ent: 0 });
        }
        v.push(Acc { op: Op::IterAllHa, arch: 0, col: 1, mutable, ent: 0 });
    }
    v
}

/// Shadow of the per-column RefCell state: [arch][col] = (readers, writer).
#[derive(Default, Clone, Debug)]
pub struct Shadow {
    pub cells: [[(u32, bool); 2]; 2],
}
impl Shadow {
    fn conflicts(&self, a: &Acc) -> bool {
        match a.op {
            Op::CloneWorld => self.cells.iter().flatten().any(|c| c.1),
            Op::Boom => false,
            _ => self.conflicts_at(a.arch, a.col, a.mutable),
        }
    }
    fn conflicts_at(&self, arch: usize, col: usize, mutable: bool) -> bool {
        let c = self.cells[arch][col];
        if mutable { c.0 > 0 || c.1 } else { c.1 }
    }
    fn open(&mut self, arch: usize, col: usize, mutable: bool) {
        let c = &mut self.cells[arch][col];
        if mutable { c.1 = true } else { c.0 += 1 }
    }
    fn close(&mut self, arch: usize, col: usize, mutable: bool) {
        let c = &mut self.cells[arch][col];
        if mutable { c.1 = false } else { c.0 -= 1 }
    }
    fn idle(&self) -> bool {
        self.cells.iter().flatten().all(|c| *c == (0, false))
    }
}

pub struct Ctx {
    pub w: EcsWorld,
    pub a: [Entity<SmA>; 2],
    pub b: [Entity<SmB>; 2],
    pub stale_a: Entity<SmA>,
    pub stale_b: Entity<SmB>,
    /// number of live entities per archetype (0 when the state keeps it empty)
    pub pop: [usize; 2],
    /// expected (token, value) per [arch][entity][col]
    pub cells: RefCell<[[[Cell; 2]; 2]; 2]>,
    pub shadow: RefCell<Shadow>,
    pub errors: RefCell<Vec<String>>,
    pub counts: RefCell<std::collections::BTreeMap<String, u64>>,
}

fn cnt(ctx: &Ctx, k: &str) {
    *ctx.counts.borrow_mut().entry(k.to_string()).or_insert(0) += 1;
}

/// Checks (and for mutable access updates) one component against the expectation.
fn touch<T: Payload>(ctx: &Ctx, arch: usize, ent: usize, col: usize, c: &T) {
    let want = ctx.cells.borrow()[arch][ent][col];
    if (c.token(), c.value()) != want {
        ctx.errors.borrow_mut().push(format!("access to arch {arch} entity {ent} column {col} saw {:?}, expected {:?}", (c.token(), c.value()), want));
    }
}
fn touch_mut<T: Payload>(ctx: &Ctx, arch: usize, ent: usize, col: usize, c: &mut T) {
    touch(ctx, arch, ent, col, c);
    let nv = c.value().wrapping_add(1) & T::MASK;
    c.set_value(nv);
    ctx.cells.borrow_mut()[arch][ent][col].1 = nv;
}

/// (archetype, entity index) a dynamic handle designates.
fn which_any(ctx: &Ctx, e: &EntityAny) -> (usize, usize) {
    if *e == ctx.a[0].into_any() {
        (0, 0)
    } else if *e == ctx.a[1].into_any() {
        (0, 1)
    } else if *e == ctx.b[0].into_any() {
        (1, 0)
    } else {
        (1, 1)
    }
}

/// Which entity index a handle of archetype A / B designates.
fn which_a(ctx: &Ctx, e: &Entity<SmA>) -> usize {
    if *e == ctx.a[0] { 0 } else { 1 }
}
fn which_b(ctx: &Ctx, e: &Entity<SmB>) -> usize {
    if *e == ctx.b[0] { 0 } else { 1 }
}

/// Does this access take a runtime borrow at all in the current world state?
pub fn opens(ctx: &Ctx, a: &Acc) -> bool {
    match a.op {
        Op::FindBorrow | Op::Component | Op::FindOneOf | Op::FindAnyHa => a.ent < 2 && a.ent < ctx.pop[a.arch],
        Op::IterBorrow | Op::IterOneOf => ctx.pop[a.arch] > 0,
        Op::IterAllHa => ctx.pop[0] + ctx.pop[1] > 0,
        Op::Slice | Op::CloneWorld => true,
        Op::Boom => false,
    }
}

/// Performs one access on the real world; `inner` runs while its borrow is held.
/// Returns how many times `inner` was entered.
pub fn exec(ctx: &Ctx, a: &Acc, inner0: &mut dyn FnMut(usize, usize)) -> usize {
    let mut inner = || inner0(a.arch, a.col);
    let w = &ctx.w;
    let mut entered = 0usize;
    macro_rules! arms {
        ($arch:expr, $col:expr, $C:ident, $field:ident, $ents:ident, $stale:ident, $which:ident, $A:ident) => {{
            let key = if a.ent < 2 { ctx.$ents[a.ent] } else { ctx.$stale };
            match (a.op, a.mutable) {
                (Op::FindBorrow, false) => {
                    ecs_find_borrow!(w, key, |e: &Entity<$A>, c: &$C| {
                        touch(ctx, $arch, $which(ctx, e), $col, c);
                        entered += 1;
                        inner();
                    });
                }
                (Op::FindBorrow, true) => {
                    ecs_find_borrow!(w, key, |e: &Entity<$A>, c: &mut $C| {
                        touch_mut(ctx, $arch, $which(ctx, e), $col, c);
                        entered += 1;
                        inner();
                    });
                }
                (Op::IterBorrow, false) => {
                    ecs_iter_borrow!(w, |e: &Entity<$A>, c: &$C| {
                        touch(ctx, $arch, $which(ctx, e), $col, c);
                        entered += 1;
                        inner();
                    });
                }
                (Op::IterBorrow, true) => {
                    ecs_iter_borrow!(w, |e: &Entity<$A>, c: &mut $C| {
                        touch_mut(ctx, $arch, $which(ctx, e), $col, c);
                        entered += 1;
                        inner();
                    });
                }
                (Op::Component, false) => {
                    if let Some(b) = w.$field.borrow(key) {
                        let g = b.component::<$C>();
                        touch(ctx, $arch, $which(ctx, b.entity()), $col, &*g);
                        entered += 1;
                        inner();
                        drop(g);
                    }
                }
                (Op::Component, true) => {
                    if let Some(b) = w.borrow(key) {
                        let mut g = b.component_mut::<$C>();
                        touch_mut(ctx, $arch, $which(ctx, b.entity()), $col, &mut *g);
                        entered += 1;
                        inner();
                        drop(g);
                    }
                }
                (Op::Slice, false) => {
                    let g = w.$field.borrow_slice::<$C>();
                    let ents = w.$field.entities();
                    for (i, c) in g.iter().enumerate() {
                        touch(ctx, $arch, $which(ctx, &ents[i]), $col, c);
                    }
                    entered += 1;
                    inner();
                    drop(g);
                }
                (Op::Slice, true) => {
                    let mut g = w.archetype::<$A>().borrow_slice_mut::<$C>();
                    let ents = w.$field.entities();
                    for (i, c) in g.iter_mut().enumerate() {
                        touch_mut(ctx, $arch, $which(ctx, &ents[i]), $col, c);
                    }
                    entered += 1;
                    inner();
                    drop(g);
                }
                _ => unreachable!(),
            }
        }};
    }
    match a.op {
        Op::CloneWorld => {
            let c = w.clone();
            entered += 1;
            inner();
            drop(c);
        }
        Op::Boom => std::panic::panic_any(Injected(FaultKind::Closure)),
        Op::FindOneOf | Op::IterOneOf => {
            macro_rules! oneof {
                ($arch:expr, $ents:ident, $stale:ident, $which:ident, $A:ident) => {{
                    let key = if a.ent < 2 { ctx.$ents[a.ent] } else { ctx.$stale };
                    match (a.op, a.mutable) {
                        (Op::FindOneOf, false) => {
                            ecs_find_borrow!(w, key, |e: &Entity<$A>, c: &OneOf<Pa, Pb>| {
                                touch(ctx, $arch, $which(ctx, e), $arch, c);
                                entered += 1;
                                inner();
                            });
                        }
                        (Op::FindOneOf, true) => {
                            ecs_find_borrow!(w, key, |e: &Entity<$A>, c: &mut OneOf<Pa, Pb>| {
                                touch_mut(ctx, $arch, $which(ctx, e), $arch, c);
                                entered += 1;
                                inner();
                            });
                        }
                        (Op::IterOneOf, false) => {
                            ecs_iter_borrow!(w, |e: &Entity<$A>, c: &OneOf<Pa, Pb>| {
                                touch(ctx, $arch, $which(ctx, e), $arch, c);
                                entered += 1;
                                inner();
                            });
                        }
                        _ => {
                            ecs_iter_borrow!(w, |e: &Entity<$A>, c: &mut OneOf<Pa, Pb>| {
                                touch_mut(ctx, $arch, $which(ctx, e), $arch, c);
                                entered += 1;
                                inner();
                            });
                        }
                    }
                }};
            }
            if a.arch == 0 {
                oneof!(0, a, stale_a, which_a, SmA)
            } else {
                oneof!(1, b, stale_b, which_b, SmB)
            }
        }
        Op::FindAnyHa => {
            let key: EntityAny = match (a.arch, a.ent < 2) {
                (0, true) => ctx.a[a.ent].into_any(),
                (0, false) => ctx.stale_a.into_any(),
                (_, true) => ctx.b[a.ent].into_any(),
                (_, false) => ctx.stale_b.into_any(),
            };
            if a.mutable {
                ecs_find_borrow!(w, key, |e: &EntityAny, c: &mut Ha| {
                    let (ar, en) = which_any(ctx, e);
                    touch_mut(ctx, ar, en, 1 - ar, c);
                    entered += 1;
                    inner0(ar, 1 - ar);
                });
            } else {
                ecs_find_borrow!(w, key, |e: &EntityAny, c: &Ha| {
                    let (ar, en) = which_any(ctx, e);
                    touch(ctx, ar, en, 1 - ar, c);
                    entered += 1;
                    inner0(ar, 1 - ar);
                });
            }
        }
        Op::IterAllHa => {
            if a.mutable {
                ecs_iter_borrow!(w, |e: &EntityAny, c: &mut Ha| {
                    let (ar, en) = which_any(ctx, e);
                    touch_mut(ctx, ar, en, 1 - ar, c);
                    entered += 1;
                    inner0(ar, 1 - ar);
                });
            } else {
                ecs_iter_borrow!(w, |e: &EntityAny, c: &Ha| {
                    let (ar, en) = which_any(ctx, e);
                    touch(ctx, ar, en, 1 - ar, c);
                    entered += 1;
                    inner0(ar, 1 - ar);
                });
            }
        }
        _ => match (a.arch, a.col) {
            (0, 0) => arms!(0, 0, Pa, sm_a, a, stale_a, which_a, SmA),
            (0, 1) => arms!(0, 1, Ha, sm_a, a, stale_a, which_a, SmA),
            (1, 0) => arms!(1, 0, Ha, sm_b, b, stale_b, which_b, SmB),
            _ => arms!(1, 1, Pb, sm_b, b, stale_b, which_b, SmB),
        },
    }
    entered
}

/// Runs the nest accs[0] { accs[1] { ... } } and judges every level.
pub fn run_nest(ctx: &Ctx, accs: &[Acc], depth: usize) {
    let Some(a) = accs.first() else { return };
    let does_open = opens(ctx, a);
    let conflict = does_open
        && if a.op == Op::IterAllHa {
            // one column per populated archetype, taken one archetype after the other
            (0..2).any(|ar| ctx.pop[ar] > 0 && ctx.shadow.borrow().conflicts_at(ar, 1 - ar, a.mutable))
        } else {
            ctx.shadow.borrow().conflicts(a)
        };
    let takes_cell = does_open && !matches!(a.op, Op::CloneWorld | Op::Boom);
    let mut boom: Option<Caught> = None;
    let res = guard(|| {
        exec(ctx, a, &mut |arch: usize, col: usize| {
            if takes_cell {
                ctx.shadow.borrow_mut().open(arch, col, a.mutable);
            }
            // an inner injected panic is re-raised so that it unwinds through this borrow
            let r = guard(|| run_nest(ctx, &accs[1..], depth + 1));
            if takes_cell {
                ctx.shadow.borrow_mut().close(arch, col, a.mutable);
            }
            if let Err(c) = r {
                std::panic::panic_any(InnerPanic(c.msg()));
            }
        })
    });
    let label = format!("depth {depth} {:?}", a);
    match res {
        Ok(entered) => {
            cnt(ctx, if conflict { "judged.conflict" } else { "judged.compatible" });
            if conflict {
                ctx.errors.borrow_mut().push(format!("{label}: granted although the shadow RefCell state {:?} says it aliases a mutable borrow", ctx.shadow.borrow().cells));
            }
            let want_enter = match a.op {
                Op::IterBorrow | Op::IterOneOf => ctx.pop[a.arch],
                Op::IterAllHa => ctx.pop[0] + ctx.pop[1],
                Op::FindBorrow | Op::Component | Op::FindOneOf | Op::FindAnyHa => does_open as usize,
                _ => 1,
            };
            if entered != want_enter {
                ctx.errors.borrow_mut().push(format!("{label}: body entered {entered} times, expected {want_enter}"));
            }
        }
        Err(c) => {
            if a.op == Op::Boom {
                cnt(ctx, "boom.raised");
                boom = Some(c);
            } else if let Caught::Panic { msg, .. } = &c {
                if msg.contains("<non-string") || msg.contains("InnerPanic") {
                    // an inner level's injected panic passing through this level's borrow
                    cnt(ctx, "boom.unwound_through_borrow");
                    boom = Some(c.clone());
                } else if c.is_borrow_conflict() {
                    cnt(ctx, if conflict { "judged.conflict" } else { "judged.compatible" });
                    if !conflict {
                        ctx.errors.borrow_mut().push(format!("{label}: refused ({msg}) although the shadow RefCell state {:?} says it is compatible", ctx.shadow.borrow().cells));
                    } else {
                        cnt(ctx, "conflict.panicked_as_required");
                    }
                } else {
                    ctx.errors.borrow_mut().push(format!("{label}: unexpected panic {}", c.msg()));
                }
            } else {
                boom = Some(c);
            }
        }
    }
    if let Some(c) = boom {
        // keep unwinding: the level above re-raises it through its own borrow
        if depth > 0 {
            std::panic::panic_any(InnerPanic(c.msg()));
        }
    }
}

/// Marker payload for an injected panic travelling upwards.
pub struct InnerPanic(pub String);

pub fn build_ctx(state: usize) -> Ctx {
    // state 0: both archetypes hold two entities; 1: SmB empty; 2: SmA empty
    let mut w = if state == 0 { EcsWorld::with_capacity(EcsWorldCapacity { sm_a: 2, sm_b: 3 }) } else { EcsWorld::new() };
    let mut cells = [[[(0u64, 0u64); 2]; 2]; 2];
    let mut mk = |arch: usize, ent: usize, col: usize| -> Cell {
        let t = with_reg(|r| r.new_token());
        let c = (t, 1000 * arch as u64 + 100 * ent as u64 + col as u64);
        cells[arch][ent][col] = c;
        c
    };
    // a stale handle per archetype: create and destroy one entity first
    let sa = w.create::<SmA>((make_cell::<Pa>(mk(0, 0, 0)), make_cell::<Ha>(mk(0, 0, 1))));
    drop(w.destroy(sa));
    let sb = w.create::<SmB>((make_cell::<Ha>(mk(1, 0, 0)), make_cell::<Pb>(mk(1, 0, 1))));
    drop(w.destroy(sb));
    let mut pop = [0usize; 2];
    let mut a = [sa, sa];
    let mut b = [sb, sb];
    if state != 2 {
        for i in 0..2 {
            a[i] = w.create::<SmA>((make_cell::<Pa>(mk(0, i, 0)), make_cell::<Ha>(mk(0, i, 1))));
        }
        pop[0] = 2;
    }
    if state != 1 {
        for i in 0..2 {
            b[i] = w.create::<SmB>((make_cell::<Ha>(mk(1, i, 0)), make_cell::<Pb>(mk(1, i, 1))));
        }
        pop[1] = 2;
    }
    Ctx { w, a, b, stale_a: sa, stale_b: sb, pop, cells: RefCell::new(cells), shadow: Default::default(), errors: Default::default(), counts: Default::default() }
}

/// After a nest has fully unwound every column must accept a mutable borrow again.
fn all_released(ctx: &Ctx) -> Result<(), String> {
    let r = guard(|| {
        drop(ctx.w.sm_a.borrow_slice_mut::<Pa>());
        drop(ctx.w.sm_a.borrow_slice_mut::<Ha>());
        drop(ctx.w.sm_b.borrow_slice_mut::<Ha>());
        drop(ctx.w.sm_b.borrow_slice_mut::<Pb>());
    });
    r.map_err(|c| c.msg())
}

pub fn run_borrow(seed: u64, shard: u64, nshards: u64, random_nests: usize) -> Report {
    let mut rep = Report::new();
    let accs = all_accesses();
    let mut rng = Rng::new(seed, shard);
    let mut n = 0u64;
    let mut judge_nest = |rep: &mut Report, ctx: &Ctx, nest: &[Acc]| {
        rep.step += 1;
        rep.log_op(format!("nest {:?}", nest));
        let r = guard(|| run_nest(ctx, nest, 0));
        if let Err(c) = r {
            rep.violate(&["C11"], "borrow-matrix", format!("nest {:?}: panic escaped the interpreter: {}", nest, c.msg()));
        }
        if !ctx.shadow.borrow().idle() {
            rep.violate(&["C11"], "borrow-matrix", format!("harness shadow not idle after nest {:?}", nest));
        }
        if let Some(e) = ctx.errors.borrow_mut().drain(..).next() {
            rep.violate(&["C11"], "borrow-matrix", format!("nest {:?}: {e}", nest));
        }
        if let Err(m) = all_released(ctx) {
            rep.violate(&["C11"], "borrow-leak", format!("after nest {:?} a column is still borrowed: {m}", nest));
        }
        rep.count("nests");
    };
    // exhaustive depth 2 over the three world states, sharded round-robin
    for state in 0..3 {
        let ctx = build_ctx(state);
        for (i, o) in accs.iter().enumerate() {
            for (j, inn) in accs.iter().enumerate() {
                n += 1;
                if n % nshards != shard {
                    continue;
                }
                judge_nest(&mut rep, &ctx, &[*o, *inn]);
                rep.seen("depth2_pairs", (state * 10000 + i * 100 + j) as u64);
                if rep.failed() {
                    return rep;
                }
            }
        }
        // an injected panic below one and below two held borrows (release on unwind)
        for (i, o) in accs.iter().enumerate() {
            n += 1;
            if n % nshards != shard {
                continue;
            }
            let boom = Acc { op: Op::Boom, arch: 0, col: 0, mutable: false, ent: 0 };
            judge_nest(&mut rep, &ctx, &[*o, boom]);
            let second = accs[(i * 7 + 3) % accs.len()];
            judge_nest(&mut rep, &ctx, &[*o, second, boom]);
            rep.count("unwind_nests");
            if rep.failed() {
                return rep;
            }
        }
        for (k, v) in ctx.counts.borrow().iter() {
            rep.add(k, *v);
        }
        drop(ctx);
    }
    // random deeper nestings
    for _ in 0..random_nests {
        let ctx = build_ctx(rng.below(3));
        for _ in 0..20 {
            let depth = 3 + rng.below(2);
            let mut nest: Vec<Acc> = (0..depth).map(|_| *rng.pick(&accs)).collect();
            if rng.chance(1, 5) {
                nest.push(Acc { op: Op::Boom, arch: 0, col: 0, mutable: false, ent: 0 });
            }
            judge_nest(&mut rep, &ctx, &nest);
            rep.count("random_deep_nests");
            if rep.failed() {
                return rep;
            }
        }
        for (k, v) in ctx.counts.borrow().iter() {
            rep.add(k, *v);
        }
    }
    let errs: Vec<String> = with_reg(|r| std::mem::take(&mut r.errors));
    if let Some(e) = errs.into_iter().next() {
        rep.violate(&["C11", "C04"], "registry", e);
    }
    rep.sample(format!("first nests: {}", rep.trace.iter().take(12).cloned().collect::<Vec<_>>().join(" ; ")));
    rep
}
