#![forbid(unsafe_code)]
#![allow(unused, unexpected_cfgs)]
use gecs::prelude::*;
pub struct Ca(pub u32);
pub struct Cab(pub u32);
pub struct Cabc(pub u32);
pub struct Cb(pub u32);
pub struct CbX(pub u32);
pub struct Cc(pub u32);
pub struct CcD(pub u32);
pub struct Dd(pub u32);
pub struct De(pub u32);
pub struct Xa(pub u32);

ecs_world! {
ecs_name!(W67);
#[cfg(all(all()))] ecs_archetype!(Aa, #[cfg(all(any()))] #[component_id(1)] Cc, #[component_id(3)] Cabc, #[cfg(all(any()))] #[cfg(not(not(any())))] #[component_id(2)] Dd, CcD);
}
fn main() {
let mut world = W67::default();
let e0 = world.create::<Aa>((Cabc(0), CcD(0),));
ecs_iter!(world, |_e: &EntityAny| {  });
}
