#![forbid(unsafe_code)]
#![allow(unused, unexpected_cfgs)]
use gecs::prelude::*;
pub struct Ca(pub u32);
pub struct Cab(pub u32);
pub struct Cabc(pub u32);
pub struct Cb(pub u32);
pub struct CbX(pub u32);
pub struct Cc(pub u32);
pub struct CcD(pub u32);
pub struct Dd(pub u32);
pub struct De(pub u32);
pub struct Xa(pub u32);

ecs_world! {
ecs_name!(W73);
#[cfg(all())] #[archetype_id(221)] ecs_archetype!(Aaa, CbX);
#[archetype_id(194)] ecs_archetype!(Bb, #[cfg(all())] De, CcD, CbX, #[cfg(all(any()))] Cc);
}
fn main() {
let mut world = W73::default();
let e0 = world.create::<Aaa>((CbX(0),));
let _ = ecs_find!(world, e0, |_e: &EntityAny| { });
}
