#![forbid(unsafe_code)]
#![allow(unused, unused_must_use)]
use gecs::prelude::*;
#[derive(Clone)]
pub struct CompA(pub u32);
#[derive(Clone)]
pub struct CompB(pub u32);
pub struct CompRc(pub std::rc::Rc<u32>);
ecs_world! {
    ecs_archetype!(ArchFoo, CompA, CompB);
    ecs_archetype!(ArchBar, CompA);
}
pub mod rcw {
    use super::*;
    ecs_world! {
        ecs_name!(RcWorld);
        ecs_archetype!(ArchRc, CompRc);
    }
}
fn assert_send<T: Send>() {}
fn assert_sync<T: Sync>() {}
fn assert_css<T: Copy + Send + Sync>() {}
fn main() {
    let mut world = EcsWorld::default();
    let e = world.create::<ArchFoo>((CompA(1), CompB(2)));
    let e2 = world.create::<ArchFoo>((CompA(3), CompB(4)));
    let kept = world.arch_foo.data.iter().next().unwrap();
    world.arch_foo.create((CompA(9), CompB(9)));
    let _ = kept.1 .0;
}
