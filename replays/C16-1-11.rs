#![forbid(unsafe_code)]
#![allow(unused, unexpected_cfgs)]
use gecs::prelude::*;
pub struct Ca(pub u32);
pub struct Cab(pub u32);
pub struct Cabc(pub u32);
pub struct Cb(pub u32);
pub struct CbX(pub u32);
pub struct Cc(pub u32);
pub struct CcD(pub u32);
pub struct Dd(pub u32);
pub struct De(pub u32);
pub struct Xa(pub u32);

ecs_world! {
#[archetype_id(0)] ecs_archetype!(Zz, #[cfg(not(not(all())))] #[component_id(216)] Dd, #[cfg(all())] Ca, #[cfg(not(not(all())))] Cab, Cabc);
ecs_archetype!(Ba, Cc, #[cfg(all(any()))] #[component_id(3)] Cb, De, #[component_id(4)] Xa, Ca);
ecs_archetype!(Aaa, #[cfg(not(all()))] Cabc, #[component_id(168)] Cc);
}
fn main() {
let mut world = EcsWorld::default();
let e0 = world.create::<Zz>((Dd(0), Ca(0), Cab(0), Cabc(0),));
ecs_iter_destroy!(world, |_e: &EntityAny| { EcsStepDestroy::Continue });
}
