#![forbid(unsafe_code)]
#![allow(unused, unexpected_cfgs)]
use gecs::prelude::*;
pub struct Ca(pub u32);
pub struct Cab(pub u32);
pub struct Cabc(pub u32);
pub struct Cb(pub u32);
pub struct CbX(pub u32);
pub struct Cc(pub u32);
pub struct CcD(pub u32);
pub struct Dd(pub u32);
pub struct De(pub u32);
pub struct Xa(pub u32);

ecs_world! {
ecs_name!(W67);
#[archetype_id(197)] ecs_archetype!(Bb, #[component_id(50)] De, #[cfg(not(all()))] Cab, Xa);
ecs_archetype!(Ba, Cc, Dd, Xa, CbX, #[cfg(not(all()))] Ca);
#[cfg(not(any()))] ecs_archetype!(Aaa, #[cfg(all())] Cab);
#[cfg(not(any()))] #[cfg(all())] ecs_archetype!(Ar, CcD);
}
fn main() {
let mut world = W67::default();
let e0 = world.create::<Bb>((De(0), Xa(0),));
let _ = ecs_find!(world, e0, |_e: &EntityAny| { });
}
