//! Counting global allocator (monitor "A" of DESIGN.md). The only unsafe code of the
//! verification harness. It forwards to the system allocator and counts calls; it never
//! remembers addresses, so it cannot hide a leak from LeakSanitizer / memcheck / Miri.
use std::alloc::{GlobalAlloc, Layout, System};
use std::sync::atomic::{AtomicU64, Ordering::Relaxed};

pub struct Counting;

static ALLOCS: AtomicU64 = AtomicU64::new(0);
static REALLOCS: AtomicU64 = AtomicU64::new(0);
static DEALLOCS: AtomicU64 = AtomicU64::new(0);
static LIVE_BYTES: AtomicU64 = AtomicU64::new(0);

unsafe impl GlobalAlloc for Counting {
    unsafe fn alloc(&self, layout: Layout) -> *mut u8 {
        ALLOCS.fetch_add(1, Relaxed);
        LIVE_BYTES.fetch_add(layout.size() as u64, Relaxed);
        unsafe { System.alloc(layout) }
    }
    unsafe fn dealloc(&self, ptr: *mut u8, layout: Layout) {
        DEALLOCS.fetch_add(1, Relaxed);
        LIVE_BYTES.fetch_sub(layout.size() as u64, Relaxed);
        unsafe { System.dealloc(ptr, layout) }
    }
    unsafe fn realloc(&self, ptr: *mut u8, layout: Layout, new_size: usize) -> *mut u8 {
        REALLOCS.fetch_add(1, Relaxed);
        LIVE_BYTES.fetch_add(new_size as u64, Relaxed);
        LIVE_BYTES.fetch_sub(layout.size() as u64, Relaxed);
        unsafe { System.realloc(ptr, layout, new_size) }
    }
}

#[derive(Clone, Copy, Debug, PartialEq, Eq)]
pub struct Counts {
    pub allocs: u64,
    pub reallocs: u64,
    pub deallocs: u64,
    pub live_bytes: u64,
}

pub fn counts() -> Counts {
    Counts {
        allocs: ALLOCS.load(Relaxed),
        reallocs: REALLOCS.load(Relaxed),
        deallocs: DEALLOCS.load(Relaxed),
        live_bytes: LIVE_BYTES.load(Relaxed),
    }
}
