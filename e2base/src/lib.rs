pub use gecs;
