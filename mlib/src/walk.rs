//! Token walker: reads off an expansion, per matched archetype, the `MatchedArchetype`
//! alias, the closure's parameter list and the argument expressions of the closure call.

use proc_macro2::{Delimiter, TokenStream, TokenTree};

#[derive(Debug, Clone)]
pub struct PTok {
    pub ncfg: usize,
    pub name: String,
    pub ty: String,
}

#[derive(Debug, Clone)]
pub struct Block {
    pub arch: String,
    pub params: Vec<PTok>,
    /// per call argument: number of cfg attributes and the identifiers it mentions
    pub args: Vec<(usize, Vec<String>)>,
}

fn is_punct(t: &TokenTree, c: char) -> bool {
    matches!(t, TokenTree::Punct(p) if p.as_char() == c)
}
fn ident_of(t: &TokenTree) -> Option<String> {
    match t {
        TokenTree::Ident(i) => Some(i.to_string()),
        _ => None,
    }
}

fn split_commas(ts: &[TokenTree]) -> Vec<Vec<TokenTree>> {
    let mut out = vec![Vec::new()];
    let mut angle = 0i32;
    for t in ts {
        if is_punct(t, '<') {
            angle += 1;
        }
        if is_punct(t, '>') {
            angle -= 1;
        }
        if is_punct(t, ',') && angle <= 0 {
            out.push(Vec::new());
        } else {
            out.last_mut().unwrap().push(t.clone());
        }
    }
    if out.last().map(|v| v.is_empty()).unwrap_or(false) {
        out.pop();
    }
    out
}

/// strips leading `# [cfg (..)]` attributes, returning how many there were
fn strip_attrs(ts: &[TokenTree]) -> (usize, &[TokenTree]) {
    let mut n = 0;
    let mut rest = ts;
    while rest.len() >= 2 && is_punct(&rest[0], '#') {
        if let TokenTree::Group(g) = &rest[1] {
            if g.delimiter() == Delimiter::Bracket {
                n += 1;
                rest = &rest[2..];
                continue;
            }
        }
        break;
    }
    (n, rest)
}

fn all_idents(ts: &[TokenTree], out: &mut Vec<String>) {
    for t in ts {
        match t {
            TokenTree::Ident(i) => out.push(i.to_string()),
            TokenTree::Group(g) => {
                let inner: Vec<TokenTree> = g.stream().into_iter().collect();
                all_idents(&inner, out);
            }
            _ => {}
        }
    }
}

fn find_call(ts: &[TokenTree]) -> Option<Vec<TokenTree>> {
    for (i, t) in ts.iter().enumerate() {
        if ident_of(t).as_deref() == Some("closure") {
            if let Some(TokenTree::Group(g)) = ts.get(i + 1) {
                if g.delimiter() == Delimiter::Parenthesis {
                    return Some(g.stream().into_iter().collect());
                }
            }
        }
        if let TokenTree::Group(g) = t {
            let inner: Vec<TokenTree> = g.stream().into_iter().collect();
            if let Some(r) = find_call(&inner) {
                return Some(r);
            }
        }
    }
    None
}

fn tokens_to_string(ts: &[TokenTree]) -> String {
    ts.iter().cloned().collect::<TokenStream>().to_string()
}

fn walk(ts: &[TokenTree], out: &mut Vec<Block>) -> Result<(), String> {
    let mut i = 0;
    while i < ts.len() {
        if ident_of(&ts[i]).as_deref() == Some("type") && ts.get(i + 1).and_then(ident_of).as_deref() == Some("MatchedArchetype") {
            let arch = ts.get(i + 3).and_then(ident_of).ok_or("no archetype after alias")?;
            // the closure definition follows in the same token list
            let rest = &ts[i..];
            let c = rest.iter().position(|t| ident_of(t).as_deref() == Some("closure")).ok_or("no closure definition")?;
            // rest[c] = closure, rest[c+1] = '=', rest[c+2] = '|'
            if !(is_punct(rest.get(c + 1).ok_or("eof")?, '=') && is_punct(rest.get(c + 2).ok_or("eof")?, '|')) {
                return Err("unexpected closure definition shape".into());
            }
            let start = c + 3;
            let end = start + rest[start..].iter().position(|t| is_punct(t, '|')).ok_or("closure parameter list not closed")?;
            let mut params = Vec::new();
            for p in split_commas(&rest[start..end]) {
                let (ncfg, body) = strip_attrs(&p);
                let colon = body.iter().position(|t| is_punct(t, ':')).ok_or("parameter without type")?;
                params.push(PTok { ncfg, name: tokens_to_string(&body[..colon]), ty: tokens_to_string(&body[colon + 1..]) });
            }
            let call = find_call(&rest[end..]).ok_or("no closure call")?;
            let mut args = Vec::new();
            for a in split_commas(&call) {
                let (ncfg, body) = strip_attrs(&a);
                let mut ids = Vec::new();
                all_idents(body, &mut ids);
                args.push((ncfg, ids));
            }
            out.push(Block { arch, params, args });
            i += 4;
            continue;
        }
        if let TokenTree::Group(g) = &ts[i] {
            let inner: Vec<TokenTree> = g.stream().into_iter().collect();
            walk(&inner, out)?;
        }
        i += 1;
    }
    Ok(())
}

pub fn blocks(ts: TokenStream) -> Result<Vec<Block>, String> {
    let v: Vec<TokenTree> = ts.into_iter().collect();
    let mut out = Vec::new();
    walk(&v, &mut out)?;
    Ok(out)
}

pub fn has_unsafe(ts: TokenStream) -> bool {
    let v: Vec<TokenTree> = ts.into_iter().collect();
    let mut ids = Vec::new();
    all_idents(&v, &mut ids);
    ids.iter().any(|i| i == "unsafe")
}
