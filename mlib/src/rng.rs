//! splitmix64: the only source of randomness; a run is determined by its argv.
#[derive(Clone, Debug)]
pub struct Rng(pub u64);

impl Rng {
    pub fn new(seed: u64, stream: u64) -> Self {
        let mut r = Rng(seed ^ stream.wrapping_mul(0x9E37_79B9_7F4A_7C15) ^ 0xD1B5_4A32_D192_ED03);
        r.next();
        r.next();
        r
    }
    pub fn next(&mut self) -> u64 {
        self.0 = self.0.wrapping_add(0x9E37_79B9_7F4A_7C15);
        let mut z = self.0;
        z = (z ^ (z >> 30)).wrapping_mul(0xBF58_476D_1CE4_E5B9);
        z = (z ^ (z >> 27)).wrapping_mul(0x94D0_49BB_1331_11EB);
        z ^ (z >> 31)
    }
    /// uniform in 0..n (n > 0)
    pub fn below(&mut self, n: usize) -> usize {
        (self.next() % n as u64) as usize
    }
    pub fn chance(&mut self, num: u64, den: u64) -> bool {
        self.next() % den < num
    }
    pub fn pick<'a, T>(&mut self, xs: &'a [T]) -> &'a T {
        &xs[self.below(xs.len())]
    }
    /// index drawn according to integer weights
    pub fn weighted(&mut self, weights: &[u32]) -> usize {
        let total: u64 = weights.iter().map(|w| *w as u64).sum();
        let mut x = self.next() % total.max(1);
        for (i, w) in weights.iter().enumerate() {
            if x < *w as u64 {
                return i;
            }
            x -= *w as u64;
        }
        weights.len() - 1
    }
}
