//! E2 emitter: turns generated (world, queries) cases into real client programs plus the
//! output the reference expects from running them, and reject-class programs with the
//! expected diagnostic and a compiling twin.

use crate::e3::{twin_query, twin_world};
use crate::gen::*;
use crate::rng::Rng;
use std::fmt::Write as _;

const PRELUDE: &str = r#"
#[allow(unused_imports)]
use gecs::prelude::*;
pub trait AsAnyH { fn as_any_h(&self) -> EntityAny; }
impl<A: Archetype> AsAnyH for Entity<A> { fn as_any_h(&self) -> EntityAny { (*self).into_any() } }
impl AsAnyH for EntityAny { fn as_any_h(&self) -> EntityAny { *self } }
pub trait AsDirH { fn as_dir_h(&self) -> EntityDirectAny; }
impl<A: Archetype> AsDirH for EntityDirect<A> { fn as_dir_h(&self) -> EntityDirectAny { (*self).into_any() } }
impl AsDirH for EntityDirectAny { fn as_dir_h(&self) -> EntityDirectAny { *self } }
pub fn idx_of(created: &[EntityAny], e: &EntityAny) -> i64 { created.iter().position(|x| x == e).map(|i| i as i64).unwrap_or(-1) }
"#;

fn pool_structs() -> String {
    POOL.iter().map(|c| format!("pub struct {c}(pub u32);\n")).collect()
}

struct Ent {
    arch: usize,  // index into enabled archetype list
    serial: usize,
    var: String,
}

fn value(arch: usize, comp: &str, serial: usize) -> u32 {
    let pi = POOL.iter().position(|p| *p == comp).unwrap();
    (arch * 10000 + pi * 100 + serial) as u32
}

/// One positive case: a module with the world, a script and every query; plus expected lines.
pub fn emit_case(rng: &mut Rng, case: usize, opts: &GenOpts, src: &mut String, expected: &mut Vec<String>) {
    let mut w = gen_world(rng, opts);
    // a unique name keeps the per-world query macro names (a hash of the declaration) distinct
    w.name = Some(format!("Wc{case}"));
    let r = ref_world(&w).expect("positive cases are legal");
    let wname = world_name(&w);
    let tag = format!("case {case}");
    writeln!(src, "pub mod case_{case} {{\n#![allow(unused, non_snake_case, non_camel_case_types, unexpected_cfgs)]\nuse super::*;\n{}\necs_world! {{\n{}}}\n", pool_structs(), world_body_src(&w)).unwrap();
    writeln!(src, "pub fn run(out: &mut Vec<String>) {{\nlet mut world = {wname}::default();\nlet mut created: Vec<EntityAny> = Vec::new();").unwrap();
    // ---- population ----
    let mut ents: Vec<Ent> = Vec::new();
    for (ai, a) in r.iter().enumerate() {
        let k = *rng.pick(&[0usize, 1, 1, 2, 2, 3]);
        for s in 0..k {
            let var = format!("e_{}_{}", a.name, s);
            let comps: Vec<String> = a.comps.iter().map(|(c, _)| format!("{c}({})", value(ai, c, s))).collect();
            writeln!(src, "let {var} = world.create::<{}>(({},)); created.push({var}.into_any());", a.name, comps.join(", ")).unwrap();
            ents.push(Ent { arch: ai, serial: s, var });
        }
    }
    // ---- ids ----
    writeln!(src, "out.push(format!(\"{tag} NUM {{}}\", <{wname} as World>::NUM_ARCHETYPES));").unwrap();
    expected.push(format!("{tag} NUM {}", r.len()));
    for a in r.iter() {
        writeln!(
            src,
            "out.push(format!(\"{tag} ARCH {} {{}} {{}} {{}}\", <{} as Archetype>::ARCHETYPE_ID, SelectArchetype::try_from({}u8).map(|s| s.archetype_id() as i32).unwrap_or(-1), world.archetype::<{}>().len()));",
            a.name, a.name, a.id, a.name
        )
        .unwrap();
        let n = ents.iter().filter(|e| r[e.arch].name == a.name).count();
        expected.push(format!("{tag} ARCH {} {} {} {}", a.name, a.id, a.id, n));
        for (c, cid) in a.comps.iter() {
            writeln!(src, "out.push(format!(\"{tag} COMP {} {c} {{}} {{}}\", ecs_component_id!({c}, {}), <{} as ArchetypeHas<{c}>>::COMPONENT_ID));", a.name, a.name, a.name).unwrap();
            expected.push(format!("{tag} COMP {} {c} {cid} {cid}", a.name));
        }
    }
    for e in ents.iter() {
        writeln!(src, "out.push(format!(\"{tag} HANDLE {} {{}}\", {}.into_any().archetype_id()));", e.var, e.var).unwrap();
        expected.push(format!("{tag} HANDLE {} {}", e.var, r[e.arch].id));
    }
    // undeclared ids are rejected by the Select tables
    let undeclared: Vec<u8> = (0..=255u8).filter(|i| !r.iter().any(|a| a.id == *i)).collect();
    if let Some(u) = undeclared.first() {
        let u2 = undeclared[undeclared.len() / 2];
        writeln!(src, "out.push(format!(\"{tag} UNDECL {{}} {{}}\", SelectArchetype::try_from({u}u8).is_err(), SelectArchetype::try_from({u2}u8).is_err()));").unwrap();
        expected.push(format!("{tag} UNDECL true true"));
    }
    // ---- queries ----
    let nq = 4;
    for qi in 0..nq {
        let mut q;
        let mut tries = 0;
        let m = loop {
            q = gen_query(rng, &w, opts, true);
            tries += 1;
            match ref_match(&r, &q) {
                Ok(m) => break m,
                Err(_) if tries > 50 => {
                    q = GQuery { params: vec![], preds: vec![] };
                    break ref_match(&r, &q).unwrap();
                }
                Err(_) => continue,
            }
        };
        let enabled: Vec<bool> = q.params.iter().map(|p| p.cfgs.iter().all(|c| q.preds[*c].truth)).collect();
        // closure body shared by all macros
        let mut vals = Vec::new();
        let mut cids = Vec::new();
        let mut echk = Vec::new();
        let mut dchk = Vec::new();
        let mut touch = String::new();
        for (i, p) in q.params.iter().enumerate() {
            if !enabled[i] {
                continue;
            }
            match &p.kind {
                GKind::Comp(c) => {
                    vals.push(format!("{}.0", p.name));
                    cids.push(format!("ecs_component_id!({c})"));
                    if p.is_mut {
                        write!(touch, "{}.0 += 0; ", p.name).unwrap();
                    }
                }
                GKind::OneOf(_) => {
                    vals.push(format!("{}.0", p.name));
                    if p.is_mut {
                        write!(touch, "{}.0 += 0; ", p.name).unwrap();
                    }
                }
                GKind::Entity(_) | GKind::EntityWild | GKind::EntityAny => echk.push(format!("({}.as_any_h() == *ent__)", p.name)),
                _ => dchk.push(format!("dchk.push((*ent__, {}.as_dir_h()));", p.name)),
            }
        }
        let fmt_vals = vec!["{}"; vals.len()].join(",");
        let fmt_cids = vec!["{}"; cids.len()].join(",");
        let echk_expr = if echk.is_empty() { "true".to_string() } else { echk.join(" && ") };
        let params = {
            let p = params_src(&q);
            if p.is_empty() { "ent__: &EntityAny".to_string() } else { format!("{p}, ent__: &EntityAny") }
        };
        let line_expr = |prefix: &str| {
            let mut args = vec!["<MatchedArchetype as Archetype>::ARCHETYPE_ID".to_string(), "idx_of(&created, ent__)".to_string()];
            args.extend(vals.iter().cloned());
            args.extend(cids.iter().cloned());
            args.push(echk_expr.clone());
            format!("format!(\"{prefix} arch={{}} ent={{}} vals=[{fmt_vals}] cids=[{fmt_cids}] echk={{}}\", {})", args.join(", "))
        };
        let expect_line = |prefix: &str, ai: usize, ent_index: usize, serial: usize, bound: &[Bound]| {
            let mut v = Vec::new();
            let mut c = Vec::new();
            for (i, p) in q.params.iter().enumerate() {
                if let Bound::Comp(name) = &bound[i] {
                    v.push(value(ai, name, serial).to_string());
                    if matches!(p.kind, GKind::Comp(_)) {
                        c.push(r[ai].comps.iter().find(|x| x.0 == *name).unwrap().1.to_string());
                    }
                }
            }
            format!("{prefix} arch={} ent={} vals=[{}] cids=[{}] echk=true", r[ai].id, ent_index, v.join(","), c.join(","))
        };
        let ndirect = dchk.len();
        for mac in [Mac::Iter, Mac::IterBorrow, Mac::IterDestroy] {
            let prefix = format!("{tag} Q{qi} {}", mac.name());
            let ret = if mac == Mac::IterDestroy { "EcsStepDestroy::Continue" } else { "" };
            let wexpr = "world";
            writeln!(src, "{{ let mut dchk: Vec<(EntityAny, EntityDirectAny)> = Vec::new();\n{}!({wexpr}, |{params}| {{ {touch}{} out.push({}); {ret} }});", mac.name(), dchk.join(" "), line_expr(&prefix)).unwrap();
            writeln!(src, "let ok = dchk.iter().filter(|(e, d)| world.to_direct(*e) == Some(*d) && world.contains(*d)).count(); out.push(format!(\"{prefix} DIRECT ok={{}} of {{}}\", ok, dchk.len())); }}").unwrap();
            let mut visits = 0;
            for (ei, e) in ents.iter().enumerate() {
                if let Some((_, bound)) = m.iter().find(|x| x.0 == r[e.arch].name) {
                    expected.push(expect_line(&prefix, e.arch, ei, e.serial, bound));
                    visits += 1;
                }
            }
            expected.push(format!("{prefix} DIRECT ok={} of {}", visits * ndirect, visits * ndirect));
        }
        for mac in [Mac::Find, Mac::FindBorrow] {
            for (ei, e) in ents.iter().enumerate() {
                let kind = (ei + qi) % 4;
                let key = match kind {
                    0 => e.var.clone(),
                    1 => format!("{}.into_any()", e.var),
                    2 => format!("world.to_direct({}).unwrap()", e.var),
                    _ => format!("world.to_direct({}.into_any()).unwrap()", e.var),
                };
                let prefix = format!("{tag} Q{qi} {} key{kind}", mac.name());
                let wexpr = "world";
                writeln!(
                    src,
                    "{{ let key = {key}; let mut dchk: Vec<(EntityAny, EntityDirectAny)> = Vec::new(); let r = {}!({wexpr}, key, |{params}| {{ {touch}{} {} }}); let ok = dchk.iter().filter(|(e, d)| world.to_direct(*e) == Some(*d)).count() == dchk.len(); out.push(match r {{ Some(s) => format!(\"{{}} dok={{}}\", s, ok), None => format!(\"{prefix} ent={ei} NONE\") }}); }}",
                    mac.name(),
                    dchk.join(" "),
                    line_expr(&prefix)
                )
                .unwrap();
                match m.iter().find(|x| x.0 == r[e.arch].name) {
                    Some((_, bound)) => expected.push(format!("{} dok=true", expect_line(&prefix, e.arch, ei, e.serial, bound))),
                    None => expected.push(format!("{prefix} ent={ei} NONE")),
                }
            }
        }
    }
    writeln!(src, "}}\n}}").unwrap();
}

pub fn emit_positive(seed: u64, file: usize, ncases: usize, feature_bits: Option<u8>) -> (String, Vec<String>) {
    let mut rng = Rng::new(seed, 7000 + file as u64);
    let mut src = String::new();
    let mut expected = Vec::new();
    writeln!(src, "#![forbid(unsafe_code)]\n#![allow(unused, unexpected_cfgs)]\n{PRELUDE}").unwrap();
    for c in 0..ncases {
        let opts = GenOpts { use_cfg: feature_bits.is_some() || rng.chance(2, 3), feature_bits, allow_id_errors: false, max_archs: 5 };
        emit_case(&mut rng, c, &opts, &mut src, &mut expected);
    }
    writeln!(src, "fn main() {{\nlet mut out: Vec<String> = Vec::new();").unwrap();
    for c in 0..ncases {
        writeln!(src, "case_{c}::run(&mut out);").unwrap();
    }
    writeln!(src, "for l in out {{ println!(\"{{}}\", l); }}\n}}").unwrap();
    (src, expected)
}

/// A reject-class program: (source, expected diagnostic substring or None for the twin, class)
pub struct Neg {
    pub src: String,
    pub expect: Option<&'static str>,
    pub class: &'static str,
}

fn neg_program(world_body: &str, wname: &str, stmt: &str) -> String {
    format!(
        "#![forbid(unsafe_code)]\n#![allow(unused, unexpected_cfgs)]\nuse gecs::prelude::*;\n{}\necs_world! {{\n{world_body}}}\nfn main() {{\nlet mut world = {wname}::default();\n{stmt}\n}}\n",
        pool_structs()
    )
}

pub fn emit_negatives(seed: u64, n: usize) -> Vec<Neg> {
    let mut rng = Rng::new(seed, 9000);
    let mut out = Vec::new();
    let mut guard = 0;
    while out.len() < 2 * n && guard < 100 * n {
        guard += 1;
        let class = rng.below(5);
        match class {
            // C15: duplicate id / counting past 255
            0 | 1 => {
                let opts = GenOpts { use_cfg: rng.chance(1, 2), feature_bits: None, allow_id_errors: true, max_archs: 5 };
                let w = gen_world(&mut rng, &opts);
                let Err(e) = ref_world(&w) else { continue };
                let expect = match e {
                    IdErr::Duplicate => "already assigned",
                    IdErr::Past255 => "may not exceed 255",
                };
                out.push(Neg { src: neg_program(&world_body_src(&w), &world_name(&w), ""), expect: Some(expect), class: if e == IdErr::Duplicate { "duplicate-id" } else { "id-past-255" } });
                // twin: the same declaration without explicit ids
                let mut t = w.clone();
                for a in t.archs.iter_mut() {
                    a.explicit_id = None;
                    for c in a.comps.iter_mut() {
                        c.explicit_id = None;
                    }
                }
                out.push(Neg { src: neg_program(&world_body_src(&t), &world_name(&t), ""), expect: None, class: "twin" });
            }
            // C05: empty match set / ambiguous OneOf; C16: cfg on OneOf
            _ => {
                let opts = GenOpts { use_cfg: rng.chance(1, 2), feature_bits: None, allow_id_errors: false, max_archs: 4 };
                let w = gen_world(&mut rng, &opts);
                let r = ref_world(&w).unwrap();
                let mut q = gen_query(&mut rng, &w, &opts, true);
                if class == 4 {
                    // decorate a OneOf with a cfg
                    let members: Vec<String> = POOL[..2].iter().map(|s| s.to_string()).collect();
                    q.preds.push(GPred { text: "all()".into(), truth: true });
                    let pi = q.preds.len() - 1;
                    q.params.push(GParam { name: "px".into(), is_mut: false, kind: GKind::OneOf(members), cfgs: vec![pi] });
                }
                let Err(e) = ref_match(&r, &q) else { continue };
                let probs = problems(&r, &q);
                let (expect, cls) = match e {
                    QErr::NoMatch => ("matched no archetypes", "no-match"),
                    QErr::Ambiguous => ("ambiguous", "ambiguous-oneof"),
                    QErr::CfgOnOneOf => ("not currently supported on OneOf", "cfg-on-oneof"),
                };
                let mac = *rng.pick(&[Mac::Iter, Mac::IterBorrow, Mac::IterDestroy, Mac::Find, Mac::FindBorrow]);
                let wexpr = "world";
                let ret = if mac == Mac::IterDestroy { "EcsStepDestroy::Continue" } else { "" };
                let setup = format!("let e0 = world.create::<{}>(({},));", r[0].name, r[0].comps.iter().map(|(c, _)| format!("{c}(0)")).collect::<Vec<_>>().join(", "));
                let call = |params: &str| match mac {
                    Mac::Find | Mac::FindBorrow => format!("{setup}\nlet _ = {}!({wexpr}, e0, |{params}| {{ }});", mac.name()),
                    _ => format!("{setup}\n{}!({wexpr}, |{params}| {{ {ret} }});", mac.name()),
                };
                // several simultaneous problems may be reported in either order: accept any of them
                let expect = if probs.len() > 1 { "" } else { expect };
                out.push(Neg { src: neg_program(&world_body_src(&w), &world_name(&w), &call(&params_src(&q))), expect: Some(expect), class: cls });
                out.push(Neg { src: neg_program(&world_body_src(&w), &world_name(&w), &call("_e: &EntityAny")), expect: None, class: "twin" });
            }
        }
    }
    out
}

/// Bare programs for the expansion scan: worlds and queries with empty bodies and nothing
/// else (no formatting macros), so that every `unsafe` token in rustc's expanded output
/// would have to come from gecs's macros.
pub fn emit_bare(seed: u64, file: usize, ncases: usize) -> String {
    let mut rng = Rng::new(seed, 8000 + file as u64);
    let mut src = String::new();
    writeln!(src, "#![forbid(unsafe_code)]\n#![allow(unused, unexpected_cfgs)]\nuse gecs::prelude::*;").unwrap();
    for c in 0..ncases {
        let opts = GenOpts { use_cfg: rng.chance(2, 3), feature_bits: None, allow_id_errors: false, max_archs: 5 };
        let mut w = gen_world(&mut rng, &opts);
        w.name = Some(format!("Wb{c}"));
        let r = ref_world(&w).expect("legal");
        writeln!(src, "pub mod bare_{c} {{\nuse super::*;\n{}\necs_world! {{\n{}}}\npub fn run(world: &mut Wb{c}, key: EntityAny) {{", pool_structs(), world_body_src(&w)).unwrap();
        for _ in 0..4 {
            let mut q;
            let mut tries = 0;
            loop {
                q = gen_query(&mut rng, &w, &opts, true);
                tries += 1;
                if ref_match(&r, &q).is_ok() {
                    break;
                }
                if tries > 50 {
                    q = GQuery { params: vec![], preds: vec![] };
                    break;
                }
            }
            // closure parameters are unused: prefix names to keep the output free of warnings-as-noise
            let params = params_src(&q);
            for mac in MACS {
                let ret = if mac == Mac::IterDestroy { "EcsStepDestroy::Continue" } else { "" };
                match mac {
                    Mac::Find | Mac::FindBorrow => writeln!(src, "let _ = {}!(world, key, |{params}| {{ }});", mac.name()).unwrap(),
                    _ => writeln!(src, "{}!(world, |{params}| {{ {ret} }});", mac.name()).unwrap(),
                }
            }
            if let Some(a) = r.first() {
                if let Some(cn) = a.comps.first() {
                    writeln!(src, "let _ = ecs_component_id!({}, {});", cn.0, a.name).unwrap();
                }
            }
        }
        writeln!(src, "}}\n}}").unwrap();
    }
    writeln!(src, "fn main() {{}}").unwrap();
    src
}

pub fn write_all(seed: u64, outdir: &str, files: usize, cases: usize, negs: usize, feature_bits: Option<u8>) -> std::io::Result<()> {
    std::fs::create_dir_all(outdir)?;
    for f in 0..files {
        let (src, exp) = emit_positive(seed, f, cases, feature_bits);
        std::fs::write(format!("{outdir}/pos_{f}.rs"), src)?;
        std::fs::write(format!("{outdir}/pos_{f}.expected"), exp.join("\n") + "\n")?;
    }
    for (i, n) in emit_negatives(seed, negs).into_iter().enumerate() {
        std::fs::write(format!("{outdir}/neg_{i}.rs"), n.src)?;
        std::fs::write(format!("{outdir}/neg_{i}.expect"), format!("{}\n{}\n", n.class, n.expect.map(|e| format!("ERR:{e}")).unwrap_or("OK".into())))?;
    }
    let _ = (twin_world, twin_query);
    Ok(())
}

pub fn write_bare(seed: u64, outdir: &str, files: usize, cases: usize) -> std::io::Result<()> {
    std::fs::create_dir_all(outdir)?;
    for f in 0..files {
        std::fs::write(format!("{outdir}/bare_{f}.rs"), emit_bare(seed, f, cases))?;
    }
    Ok(())
}
