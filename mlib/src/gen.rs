//! Generator of world declarations and queries over an adversarial component pool, with
//! an independent reference (written from the documentation) for ids and match sets.

use crate::rng::Rng;

pub const POOL: [&str; 10] = ["Ca", "Cab", "Cabc", "Cb", "CbX", "Cc", "CcD", "Dd", "De", "Xa"];
pub const ARCH_NAMES: [&str; 10] = ["Aa", "Aab", "Ab", "AbC", "Ba", "Bb", "Ar", "ArX", "Zz", "Aaa"];

pub const TRUE_PREDS: [&str; 5] = ["all()", "not(any())", "any(all())", "all(all())", "not(not(all()))"];
pub const FALSE_PREDS: [&str; 5] = ["any()", "not(all())", "all(any())", "any(any())", "not(not(any()))"];

#[derive(Clone, Debug)]
pub struct GPred {
    pub text: String,
    pub truth: bool,
}

#[derive(Clone, Debug)]
pub struct GComp {
    pub name: String,
    pub explicit_id: Option<u8>,
    pub cfgs: Vec<usize>,
}

#[derive(Clone, Debug)]
pub struct GArch {
    pub name: String,
    pub explicit_id: Option<u8>,
    pub cfgs: Vec<usize>,
    pub comps: Vec<GComp>,
}

#[derive(Clone, Debug)]
pub struct GWorld {
    pub name: Option<String>,
    pub archs: Vec<GArch>,
    pub preds: Vec<GPred>,
}

#[derive(Clone, Debug, PartialEq, Eq)]
pub enum GKind {
    Comp(String),
    OneOf(Vec<String>),
    Entity(String),
    EntityWild,
    EntityAny,
    Direct(String),
    DirectWild,
    DirectAny,
}

#[derive(Clone, Debug)]
pub struct GParam {
    pub name: String,
    pub is_mut: bool,
    pub kind: GKind,
    pub cfgs: Vec<usize>,
}

#[derive(Clone, Copy, Debug, PartialEq, Eq)]
pub enum Mac {
    Find,
    FindBorrow,
    Iter,
    IterBorrow,
    IterDestroy,
}
pub const MACS: [Mac; 5] = [Mac::Find, Mac::FindBorrow, Mac::Iter, Mac::IterBorrow, Mac::IterDestroy];
impl Mac {
    pub fn name(self) -> &'static str {
        match self {
            Mac::Find => "ecs_find",
            Mac::FindBorrow => "ecs_find_borrow",
            Mac::Iter => "ecs_iter",
            Mac::IterBorrow => "ecs_iter_borrow",
            Mac::IterDestroy => "ecs_iter_destroy",
        }
    }
}

#[derive(Clone, Debug)]
pub struct GQuery {
    pub params: Vec<GParam>,
    pub preds: Vec<GPred>,
}

// ---- reference: ids ----------------------------------------------------------------------

#[derive(Clone, Debug, PartialEq, Eq)]
pub enum IdErr {
    Duplicate,
    Past255,
}

#[derive(Clone, Debug, PartialEq, Eq)]
pub struct RArch {
    pub name: String,
    pub id: u8,
    pub comps: Vec<(String, u8)>,
}

fn enabled(preds: &[GPred], cfgs: &[usize]) -> bool {
    cfgs.iter().all(|p| preds[*p].truth)
}

fn next_id(explicit: Option<u8>, last: Option<u8>, used: &mut Vec<u8>) -> Result<u8, IdErr> {
    // the enum-discriminant rule: explicit value, otherwise previous + 1, otherwise 0
    let id = match (explicit, last) {
        (Some(x), _) => x,
        (None, Some(l)) => l.checked_add(1).ok_or(IdErr::Past255)?,
        (None, None) => 0,
    };
    if used.contains(&id) {
        return Err(IdErr::Duplicate);
    }
    used.push(id);
    Ok(id)
}

/// Ids of the enabled items; disabled items do not consume an id.
pub fn ref_world(w: &GWorld) -> Result<Vec<RArch>, IdErr> {
    let mut out = Vec::new();
    let mut used = Vec::new();
    let mut last = None;
    for a in w.archs.iter().filter(|a| enabled(&w.preds, &a.cfgs)) {
        let id = next_id(a.explicit_id, last, &mut used)?;
        last = Some(id);
        let mut cused = Vec::new();
        let mut clast = None;
        let mut comps = Vec::new();
        for c in a.comps.iter().filter(|c| enabled(&w.preds, &c.cfgs)) {
            let cid = next_id(c.explicit_id, clast, &mut cused)?;
            clast = Some(cid);
            comps.push((c.name.clone(), cid));
        }
        out.push(RArch { name: a.name.clone(), id, comps });
    }
    Ok(out)
}

// ---- reference: matching -----------------------------------------------------------------

#[derive(Clone, Debug, PartialEq, Eq)]
pub enum QErr {
    NoMatch,
    Ambiguous,
    CfgOnOneOf,
}

/// What a parameter is bound to in one matched archetype.
#[derive(Clone, Debug, PartialEq, Eq)]
pub enum Bound {
    Comp(String),
    EntityTyped(String),
    EntityAny,
    DirectTyped(String),
    DirectAny,
    /// disabled by cfg: not part of the closure
    Disabled,
}

pub fn ref_match(world: &[RArch], q: &GQuery) -> Result<Vec<(String, Vec<Bound>)>, QErr> {
    let has = |a: &RArch, c: &str| a.comps.iter().any(|x| x.0 == c);
    for p in q.params.iter() {
        if let GKind::OneOf(members) = &p.kind {
            if !p.cfgs.is_empty() {
                return Err(QErr::CfgOnOneOf);
            }
            for a in world {
                if members.iter().filter(|m| has(a, m)).count() >= 2 {
                    return Err(QErr::Ambiguous);
                }
            }
        }
    }
    let mut out = Vec::new();
    for a in world {
        let mut bound = Vec::new();
        let mut ok = true;
        for p in q.params.iter() {
            if !enabled(&q.preds, &p.cfgs) {
                bound.push(Bound::Disabled);
                continue;
            }
            match &p.kind {
                GKind::Comp(c) => {
                    if has(a, c) { bound.push(Bound::Comp(c.clone())) } else { ok = false }
                }
                GKind::OneOf(ms) => {
                    let present: Vec<&String> = ms.iter().filter(|m| has(a, m)).collect();
                    if present.len() == 1 { bound.push(Bound::Comp(present[0].clone())) } else { ok = false }
                }
                GKind::Entity(n) => {
                    if *n == a.name { bound.push(Bound::EntityTyped(n.clone())) } else { ok = false }
                }
                GKind::Direct(n) => {
                    if *n == a.name { bound.push(Bound::DirectTyped(n.clone())) } else { ok = false }
                }
                GKind::EntityWild => bound.push(Bound::EntityTyped(a.name.clone())),
                GKind::DirectWild => bound.push(Bound::DirectTyped(a.name.clone())),
                GKind::EntityAny => bound.push(Bound::EntityAny),
                GKind::DirectAny => bound.push(Bound::DirectAny),
            }
        }
        if ok {
            out.push((a.name.clone(), bound));
        }
    }
    if out.is_empty() {
        return Err(QErr::NoMatch);
    }
    Ok(out)
}

/// Every independent reason for rejecting a query (the order in which the macro reports
/// simultaneous problems is not specified, so a checker must accept any of them).
pub fn problems(world: &[RArch], q: &GQuery) -> Vec<QErr> {
    let has = |a: &RArch, c: &str| a.comps.iter().any(|x| x.0 == c);
    let mut out = Vec::new();
    for p in q.params.iter() {
        if let GKind::OneOf(members) = &p.kind {
            if !p.cfgs.is_empty() && !out.contains(&QErr::CfgOnOneOf) {
                out.push(QErr::CfgOnOneOf);
            }
            if world.iter().any(|a| members.iter().filter(|m| has(a, m)).count() >= 2) && !out.contains(&QErr::Ambiguous) {
                out.push(QErr::Ambiguous);
            }
        }
    }
    // match set with the problematic OneOf parameters treated as "binds iff exactly one member"
    let mut stripped = q.clone();
    for p in stripped.params.iter_mut() {
        p.cfgs.retain(|_| !matches!(p.kind, GKind::OneOf(_)));
    }
    let any_match = world.iter().any(|a| {
        stripped.params.iter().all(|p| {
            if !enabled(&stripped.preds, &p.cfgs) {
                return true;
            }
            match &p.kind {
                GKind::Comp(c) => has(a, c),
                GKind::OneOf(ms) => ms.iter().filter(|m| has(a, m)).count() == 1,
                GKind::Entity(n) | GKind::Direct(n) => *n == a.name,
                _ => true,
            }
        })
    });
    if !any_match {
        out.push(QErr::NoMatch);
    }
    out
}

// ---- generation --------------------------------------------------------------------------

pub struct GenOpts {
    pub use_cfg: bool,
    /// cfg predicates of the form feature = "fN" with truth given by this bit set
    pub feature_bits: Option<u8>,
    pub allow_id_errors: bool,
    pub max_archs: usize,
}

fn pick_pred(rng: &mut Rng, preds: &mut Vec<GPred>, opts: &GenOpts) -> usize {
    // reuse an existing predicate half of the time (duplicates must be de-duplicated)
    if !preds.is_empty() && rng.chance(1, 2) {
        return rng.below(preds.len());
    }
    let p = if let (Some(bits), true) = (opts.feature_bits, rng.chance(1, 2)) {
        let f = rng.below(3);
        let on = bits & (1 << f) != 0;
        if rng.chance(1, 3) {
            GPred { text: format!("not(feature = \"f{f}\")"), truth: !on }
        } else {
            GPred { text: format!("feature = \"f{f}\""), truth: on }
        }
    } else {
        let truth = rng.chance(1, 2);
        let text = if truth { *rng.pick(&TRUE_PREDS) } else { *rng.pick(&FALSE_PREDS) };
        GPred { text: text.to_string(), truth }
    };
    if let Some(i) = preds.iter().position(|x| x.text == p.text) {
        return i;
    }
    preds.push(p);
    preds.len() - 1
}

fn maybe_cfgs(rng: &mut Rng, preds: &mut Vec<GPred>, opts: &GenOpts, num: u64, den: u64) -> Vec<usize> {
    let mut v = Vec::new();
    if opts.use_cfg && rng.chance(num, den) {
        v.push(pick_pred(rng, preds, opts));
        if rng.chance(1, 6) {
            let p = pick_pred(rng, preds, opts);
            v.push(p);
        }
    }
    v
}

pub fn gen_world(rng: &mut Rng, opts: &GenOpts) -> GWorld {
    let mut preds = Vec::new();
    let n = 1 + rng.below(opts.max_archs);
    let mut names: Vec<&str> = ARCH_NAMES.to_vec();
    let mut archs = Vec::new();
    // id style: none / ascending / descending / colliding-prone / near 255
    let style = rng.below(6);
    let mut next_explicit: i32 = match style {
        2 => 250,
        4 => 253,
        _ => rng.below(20) as i32,
    };
    for i in 0..n {
        let name = names.remove(rng.below(names.len())).to_string();
        let explicit_id = match style {
            0 => None,
            1 => {
                if rng.chance(1, 2) { next_explicit += 1 + rng.below(5) as i32; Some(next_explicit.min(255) as u8) } else { None }
            }
            2 => {
                if rng.chance(2, 3) { next_explicit -= 1 + rng.below(40) as i32; Some(next_explicit.max(0) as u8) } else { None }
            }
            3 => {
                // explicit ids close to implicit successors: collisions when allowed
                if rng.chance(1, 2) { Some((i as u8).wrapping_add(rng.below(3) as u8)) } else { None }
            }
            4 => {
                if i == 0 || rng.chance(1, 4) { next_explicit += rng.below(2) as i32; Some(next_explicit.min(255) as u8) } else { None }
            }
            _ => {
                if rng.chance(1, 3) { Some(rng.below(256) as u8) } else { None }
            }
        };
        let ncomp = 1 + rng.below(5);
        let mut pool: Vec<&str> = POOL.to_vec();
        let mut comps = Vec::new();
        let cstyle = rng.below(4);
        for j in 0..ncomp {
            let cname = pool.remove(rng.below(pool.len())).to_string();
            let cid = match cstyle {
                0 => None,
                1 => if rng.chance(1, 3) { Some(rng.below(256) as u8) } else { None },
                2 => if j == 0 { Some(250 + rng.below(6) as u8) } else { None },
                _ => if rng.chance(1, 3) { Some((j as u8).wrapping_add(rng.below(3) as u8)) } else { None },
            };
            let cfgs = maybe_cfgs(rng, &mut preds, opts, 1, 4);
            comps.push(GComp { name: cname, explicit_id: cid, cfgs });
        }
        let cfgs = maybe_cfgs(rng, &mut preds, opts, 1, 4);
        archs.push(GArch { name, explicit_id, cfgs, comps });
    }
    let mut w = GWorld { name: if rng.chance(1, 2) { Some(format!("W{}", rng.below(100))) } else { None }, archs, preds };
    repair(&mut w, rng, opts);
    w
}

/// Makes the world well-formed where the generator must not produce accidental rejects:
/// at least one enabled archetype, every enabled archetype keeps at least one component,
/// and (unless id errors are wanted) no id collisions.
fn repair(w: &mut GWorld, rng: &mut Rng, opts: &GenOpts) {
    let preds = w.preds.clone();
    for a in w.archs.iter_mut() {
        if !a.comps.iter().any(|c| enabled(&preds, &c.cfgs)) {
            a.comps[0].cfgs.clear();
        }
    }
    if !w.archs.iter().any(|a| enabled(&preds, &a.cfgs)) {
        w.archs[0].cfgs.clear();
    }
    if !opts.allow_id_errors {
        let mut guard = 0;
        while ref_world(w).is_err() && guard < 200 {
            guard += 1;
            // drop one explicit id at random until the declaration is legal
            let ai = rng.below(w.archs.len());
            if rng.chance(1, 2) {
                w.archs[ai].explicit_id = None;
            } else {
                let ci = rng.below(w.archs[ai].comps.len());
                w.archs[ai].comps[ci].explicit_id = None;
            }
        }
        if ref_world(w).is_err() {
            for a in w.archs.iter_mut() {
                a.explicit_id = None;
                for c in a.comps.iter_mut() {
                    c.explicit_id = None;
                }
            }
        }
    }
}

pub fn gen_query(rng: &mut Rng, w: &GWorld, opts: &GenOpts, runnable: bool) -> GQuery {
    let mut preds = Vec::new();
    let n = rng.below(5);
    let mut params = Vec::new();
    let mut used: Vec<String> = Vec::new();
    let enabled_archs: Vec<&GArch> = w.archs.iter().filter(|a| enabled(&w.preds, &a.cfgs)).collect();
    for i in 0..n {
        let k = rng.below(12);
        let kind = match k {
            0..=4 => {
                // bias toward components that exist somewhere
                let name = if rng.chance(3, 4) {
                    let a = *rng.pick(&enabled_archs);
                    rng.pick(&a.comps).name.clone()
                } else {
                    rng.pick(&POOL).to_string()
                };
                GKind::Comp(name)
            }
            5 | 6 => {
                let m = 2 + rng.below(2);
                let mut pool: Vec<&str> = POOL.to_vec();
                let ms: Vec<String> = (0..m).map(|_| pool.remove(rng.below(pool.len())).to_string()).collect();
                GKind::OneOf(ms)
            }
            7 => GKind::Entity(if rng.chance(5, 6) { rng.pick(&w.archs).name.clone() } else { rng.pick(&ARCH_NAMES).to_string() }),
            8 => GKind::EntityWild,
            9 => GKind::EntityAny,
            10 => {
                if rng.chance(1, 2) { GKind::Direct(rng.pick(&w.archs).name.clone()) } else { GKind::DirectWild }
            }
            _ => GKind::DirectAny,
        };
        // a runnable program must not name one component twice (that is C18's subject)
        let names: Vec<String> = match &kind {
            GKind::Comp(c) => vec![c.clone()],
            GKind::OneOf(ms) => ms.clone(),
            _ => vec![],
        };
        if runnable && names.iter().any(|x| used.contains(x)) {
            continue;
        }
        used.extend(names);
        let is_mut = matches!(kind, GKind::Comp(_) | GKind::OneOf(_)) && rng.chance(1, 3);
        let cfgs = if matches!(kind, GKind::OneOf(_)) { vec![] } else { maybe_cfgs(rng, &mut preds, opts, 1, 4) };
        params.push(GParam { name: format!("p{i}"), is_mut, kind, cfgs });
    }
    GQuery { params, preds }
}

// ---- source text -------------------------------------------------------------------------

fn attrs(preds: &[GPred], cfgs: &[usize]) -> String {
    cfgs.iter().map(|p| format!("#[cfg({})] ", preds[*p].text)).collect()
}

pub fn world_body_src(w: &GWorld) -> String {
    let mut s = String::new();
    if let Some(n) = &w.name {
        s.push_str(&format!("ecs_name!({n});\n"));
    }
    for a in w.archs.iter() {
        s.push_str(&attrs(&w.preds, &a.cfgs));
        if let Some(id) = a.explicit_id {
            s.push_str(&format!("#[archetype_id({id})] "));
        }
        s.push_str(&format!("ecs_archetype!({}", a.name));
        for c in a.comps.iter() {
            s.push_str(", ");
            s.push_str(&attrs(&w.preds, &c.cfgs));
            if let Some(id) = c.explicit_id {
                s.push_str(&format!("#[component_id({id})] "));
            }
            s.push_str(&c.name);
        }
        s.push_str(");\n");
    }
    s
}

pub fn kind_src(k: &GKind) -> String {
    match k {
        GKind::Comp(c) => c.clone(),
        GKind::OneOf(ms) => format!("OneOf<{}>", ms.join(", ")),
        GKind::Entity(a) => format!("Entity<{a}>"),
        GKind::EntityWild => "Entity<_>".into(),
        GKind::EntityAny => "EntityAny".into(),
        GKind::Direct(a) => format!("EntityDirect<{a}>"),
        GKind::DirectWild => "EntityDirect<_>".into(),
        GKind::DirectAny => "EntityDirectAny".into(),
    }
}

pub fn params_src(q: &GQuery) -> String {
    q.params
        .iter()
        .map(|p| format!("{}{}: &{}{}", attrs(&q.preds, &p.cfgs), p.name, if p.is_mut { "mut " } else { "" }, kind_src(&p.kind)))
        .collect::<Vec<_>>()
        .join(", ")
}

pub fn world_name(w: &GWorld) -> String {
    w.name.clone().unwrap_or_else(|| "EcsWorld".into())
}
