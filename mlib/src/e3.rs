//! E3 checks: ids (C15), matching (C05), cfg twins (C16), unsafe scan (C18) on generated
//! declarations and queries, executed against the macro sources in-process.

use crate::data::DataWorld;
use crate::gen::*;
use crate::generate::{self, FetchMode};
use crate::parse::{self, HasCfgPredicates, ParseCfgDecorated};
use crate::rng::Rng;
use crate::walk;
use convert_case::{Case, Casing};
use proc_macro2::TokenStream;
use std::collections::BTreeMap;
use std::panic::{catch_unwind, AssertUnwindSafe};
use std::str::FromStr;

#[derive(Default)]
pub struct Rep {
    pub counters: BTreeMap<String, u64>,
    pub distinct: BTreeMap<String, std::collections::BTreeSet<u64>>,
    pub samples: Vec<String>,
    pub steps: u64,
    pub violation: Option<(Vec<&'static str>, String, String)>,
}
impl Rep {
    pub fn count(&mut self, k: &str) {
        *self.counters.entry(k.to_string()).or_insert(0) += 1;
    }
    pub fn seen(&mut self, cat: &str, h: u64) {
        self.distinct.entry(cat.to_string()).or_default().insert(h);
    }
    pub fn violate(&mut self, tags: &[&'static str], oracle: &str, detail: String) {
        if self.violation.is_none() {
            self.violation = Some((tags.to_vec(), oracle.to_string(), detail));
        }
    }
    pub fn failed(&self) -> bool {
        self.violation.is_some()
    }
    pub fn to_json(&self, workload: &str, argv: &[String]) -> String {
        let js = |s: &str| format!("{:?}", s).replace("\\'", "'");
        let counters: Vec<String> = self.counters.iter().map(|(k, v)| format!("{}:{}", js(k), v)).collect();
        let distinct: Vec<String> = self.distinct.iter().map(|(k, v)| format!("{}:{}", js(k), v.len())).collect();
        let samples: Vec<String> = self.samples.iter().map(|s| js(s)).collect();
        let viol = match &self.violation {
            None => "null".to_string(),
            Some((tags, o, d)) => format!(
                "{{\"tags\":[{}],\"oracle\":{},\"step\":{},\"detail\":{},\"trace\":[]}}",
                tags.iter().map(|t| js(t)).collect::<Vec<_>>().join(","),
                js(o),
                self.steps,
                js(d)
            ),
        };
        format!(
            "{{\"workload\":{},\"argv\":[{}],\"steps\":{},\"counters\":{{{}}},\"distinct\":{{{}}},\"samples\":[{}],\"violation\":{}}}",
            js(workload),
            argv.iter().map(|a| js(a)).collect::<Vec<_>>().join(","),
            self.steps,
            counters.join(","),
            distinct.join(","),
            samples.join(","),
            viol
        )
    }
}

fn norm(s: &str) -> String {
    TokenStream::from_str(s).map(|t| t.to_string()).unwrap_or_else(|_| s.to_string())
}

fn hash_str(s: &str) -> u64 {
    s.bytes().fold(0xcbf2_9ce4_8422_2325u64, |h, b| (h ^ b as u64).wrapping_mul(0x100_0000_01b3))
}

/// Truth values in the order the macro collects predicates (what rustc's cfg probing yields).
fn bools_for<T: HasCfgPredicates>(parsed: &T, preds: &[GPred]) -> Result<Vec<bool>, String> {
    let mut out = Vec::new();
    for p in parsed.collect_all_cfg_predicates() {
        let key = p.to_string();
        let truth = preds.iter().find(|x| norm(&x.text) == key).map(|x| x.truth).ok_or(format!("collected unknown predicate {key}"))?;
        out.push(truth);
    }
    Ok(out)
}

pub fn data_world(w: &GWorld) -> Result<Result<DataWorld, String>, String> {
    let body = world_body_src(w);
    let ts = TokenStream::from_str(&body).map_err(|e| e.to_string())?;
    let parsed: parse::ParseEcsWorld = syn::parse2(ts).map_err(|e| format!("declaration does not parse: {e}"))?;
    let bools = bools_for(&parsed, &w.preds)?;
    let dec = format!("({}), {{ {} }}", bools.iter().map(|b| b.to_string()).collect::<Vec<_>>().join(", "), body);
    let dts = TokenStream::from_str(&dec).map_err(|e| e.to_string())?;
    let r = catch_unwind(AssertUnwindSafe(|| {
        let pd: ParseCfgDecorated<parse::ParseEcsWorld> = syn::parse2(dts).map_err(|e| format!("decorated parse: {e}"))?;
        DataWorld::new(pd).map_err(|e| e.to_string())
    }));
    match r {
        Ok(x) => Ok(x),
        Err(_) => Err("the macro code panicked on a declaration".into()),
    }
}

pub fn twin_world(w: &GWorld) -> GWorld {
    let mut t = w.clone();
    t.archs.retain(|a| a.cfgs.iter().all(|p| w.preds[*p].truth));
    for a in t.archs.iter_mut() {
        a.cfgs.clear();
        a.comps.retain(|c| c.cfgs.iter().all(|p| w.preds[*p].truth));
        for c in a.comps.iter_mut() {
            c.cfgs.clear();
        }
    }
    t.preds.clear();
    t
}

pub fn twin_query(q: &GQuery) -> GQuery {
    let mut t = q.clone();
    t.params.retain(|p| p.cfgs.iter().all(|c| q.preds[*c].truth));
    for p in t.params.iter_mut() {
        p.cfgs.clear();
    }
    t.preds.clear();
    t
}

pub fn same_ids(d: &DataWorld, r: &[RArch]) -> bool {
    d.archetypes.len() == r.len()
        && d.archetypes.iter().zip(r).all(|(a, b)| {
            a.name == b.name && a.id == b.id && a.components.len() == b.comps.len() && a.components.iter().zip(b.comps.iter()).all(|(x, y)| x.name == y.0 && x.id == y.1)
        })
}

pub fn expand(mac: Mac, b64: &str, q: &GQuery) -> Result<Result<TokenStream, String>, String> {
    let params = params_src(q);
    let head = match mac {
        Mac::Find | Mac::FindBorrow => format!("\"{b64}\", world, entity, |{params}|"),
        _ => format!("\"{b64}\", world, |{params}|"),
    };
    let body = if mac == Mac::IterDestroy { "{ EcsStepDestroy::Continue }" } else { "{ }" };
    let inner = format!("{head} {body}");
    let its = TokenStream::from_str(&inner).map_err(|e| e.to_string())?;
    // predicate order as the outer macro collects it
    let bools = match mac {
        Mac::Find | Mac::FindBorrow => {
            let p: parse::ParseQueryFind = syn::parse2(its).map_err(|e| format!("query does not parse: {e}"))?;
            bools_for(&p, &q.preds)?
        }
        Mac::Iter | Mac::IterBorrow => {
            let p: parse::ParseQueryIter = syn::parse2(its).map_err(|e| format!("query does not parse: {e}"))?;
            bools_for(&p, &q.preds)?
        }
        Mac::IterDestroy => {
            let p: parse::ParseQueryIterDestroy = syn::parse2(its).map_err(|e| format!("query does not parse: {e}"))?;
            bools_for(&p, &q.preds)?
        }
    };
    let dec = format!("({}), {{ {} }}", bools.iter().map(|b| b.to_string()).collect::<Vec<_>>().join(", "), inner);
    let dts = TokenStream::from_str(&dec).map_err(|e| e.to_string())?;
    // the inline cfg-probing chain of the query macro is part of the expansion too
    {
        let its2 = TokenStream::from_str(&inner).map_err(|e| e.to_string())?;
        let chain = catch_unwind(AssertUnwindSafe(|| -> Option<TokenStream> {
            match mac {
                Mac::Find | Mac::FindBorrow => syn::parse2::<parse::ParseQueryFind>(its2.clone()).ok().map(|p| generate::generate_cfg_checks_inner("find", &p, its2.clone())),
                Mac::Iter | Mac::IterBorrow => syn::parse2::<parse::ParseQueryIter>(its2.clone()).ok().map(|p| generate::generate_cfg_checks_inner("iter", &p, its2.clone())),
                Mac::IterDestroy => syn::parse2::<parse::ParseQueryIterDestroy>(its2.clone()).ok().map(|p| generate::generate_cfg_checks_inner("iter_destroy", &p, its2.clone())),
            }
        }));
        if let Ok(Some(ts)) = chain {
            if walk::has_unsafe(ts) {
                return Err("UNSAFE-TOKEN in the query's cfg-probing chain".into());
            }
        }
    }
    let r = catch_unwind(AssertUnwindSafe(|| -> Result<TokenStream, String> {
        match mac {
            Mac::Find => generate::generate_query_find(FetchMode::Mut, syn::parse2(dts).map_err(|e| e.to_string())?).map_err(|e| e.to_string()),
            Mac::FindBorrow => generate::generate_query_find(FetchMode::Borrow, syn::parse2(dts).map_err(|e| e.to_string())?).map_err(|e| e.to_string()),
            Mac::Iter => generate::generate_query_iter(FetchMode::Mut, syn::parse2(dts).map_err(|e| e.to_string())?).map_err(|e| e.to_string()),
            Mac::IterBorrow => generate::generate_query_iter(FetchMode::Borrow, syn::parse2(dts).map_err(|e| e.to_string())?).map_err(|e| e.to_string()),
            Mac::IterDestroy => generate::generate_query_iter_destroy(FetchMode::Mut, syn::parse2(dts).map_err(|e| e.to_string())?).map_err(|e| e.to_string()),
        }
    }));
    match r {
        Ok(x) => Ok(x),
        Err(_) => Err("the macro code panicked on a query".into()),
    }
}

fn snake(s: &str) -> String {
    s.from_case(Case::Pascal).to_case(Case::Snake)
}

/// Expected type string of a bound parameter.
fn bound_type(b: &Bound, is_mut: bool) -> Option<String> {
    let m = if is_mut { "mut " } else { "" };
    Some(norm(&match b {
        Bound::Comp(c) => format!("&{m}{c}"),
        Bound::EntityTyped(a) => format!("&Entity<{a}>"),
        Bound::EntityAny => "&EntityAny".into(),
        Bound::DirectTyped(a) => format!("&EntityDirect<{a}>"),
        Bound::DirectAny => "&EntityDirectAny".into(),
        Bound::Disabled => return None,
    }))
}

/// Judges one expansion against the reference match. Returns false if the walker could not
/// read the expansion (inconclusive for E3; E2 decides).
pub fn judge_expansion(rep: &mut Rep, mac: Mac, q: &GQuery, want: &[(String, Vec<Bound>)], ts: TokenStream, ctx: &str) -> bool {
    // with cfg decorations in play a wrong match is (also) a cfg defect
    let c05: &[&'static str] = if ctx.contains("#[cfg(") { &["C05", "C16"] } else { &["C05"] };
    if walk::has_unsafe(ts.clone()) {
        rep.violate(&["C18"], "unsafe-token", format!("{ctx}: expansion contains the `unsafe` keyword"));
        return true;
    }
    let blocks = match walk::blocks(ts) {
        Ok(b) => b,
        Err(e) => {
            rep.count(&format!("walker_gave_up.{e}"));
            return false;
        }
    };
    let per = if matches!(mac, Mac::Find | Mac::FindBorrow) { 2 } else { 1 };
    let got: Vec<String> = blocks.iter().map(|b| b.arch.clone()).collect();
    let mut exp: Vec<String> = Vec::new();
    for (a, _) in want {
        for _ in 0..per {
            exp.push(a.clone());
        }
    }
    if got != exp {
        rep.violate(c05, "match-set", format!("{ctx}: expansion acts on archetypes {:?}, the reference match set is {:?}", got, exp));
        return true;
    }
    for b in blocks.iter() {
        let bound = &want.iter().find(|w| w.0 == b.arch).unwrap().1;
        if b.params.len() != q.params.len() || b.args.len() != q.params.len() {
            rep.violate(c05, "binding", format!("{ctx}: {} closure has {} parameters / {} call arguments for {} query parameters", b.arch, b.params.len(), b.args.len(), q.params.len()));
            return true;
        }
        for (i, p) in q.params.iter().enumerate() {
            let pt = &b.params[i];
            let (argcfg, argids) = &b.args[i];
            if pt.ncfg != p.cfgs.len() || *argcfg != p.cfgs.len() {
                rep.violate(&["C16"], "cfg-attrs", format!("{ctx}: parameter {} carries {} cfg attribute(s) but the closure has {} and the call argument {}", p.name, p.cfgs.len(), pt.ncfg, argcfg));
                return true;
            }
            let Some(ty) = bound_type(&bound[i], p.is_mut) else {
                rep.count("disabled_params_skipped");
                continue;
            };
            if pt.ty != ty {
                rep.violate(c05, "binding", format!("{ctx}: in {} parameter {} has type `{}`, expected `{}`", b.arch, p.name, pt.ty, ty));
                return true;
            }
            if let Bound::Comp(c) = &bound[i] {
                let mine = [snake(c), c.clone()];
                let hit = argids.iter().any(|x| mine.contains(x));
                let other = POOL.iter().filter(|o| **o != c.as_str()).any(|o| argids.contains(&snake(o)) || argids.contains(&o.to_string()));
                if !hit || other {
                    rep.violate(c05, "binding", format!("{ctx}: in {} parameter {} ({c}) is fed from `{:?}` which does not name that archetype's {c} column", b.arch, p.name, argids));
                    return true;
                }
                rep.count("component_bindings_checked");
            }
        }
    }
    true
}

pub fn run_e3(seed: u64, shard: u64, n: usize) -> Rep {
    let mut rep = Rep::default();
    let mut rng = Rng::new(seed, shard);
    for case in 0..n {
        if rep.failed() {
            break;
        }
        rep.steps += 1;
        let opts = GenOpts { use_cfg: rng.chance(2, 3), feature_bits: None, allow_id_errors: rng.chance(1, 3), max_archs: if rng.chance(1, 20) { 10 } else { 6 } };
        let w = gen_world(&mut rng, &opts);
        let ctx = format!("world `{}`", world_body_src(&w).replace('\n', " "));
        if case < 3 {
            rep.samples.push(ctx.clone());
        }
        // ---- C15 / C16: ids ----
        let dw = match data_world(&w) {
            Ok(d) => d,
            Err(e) => {
                rep.violate(&["C15", "C16"], "declaration", format!("{ctx}: {e}"));
                break;
            }
        };
        let rw = ref_world(&w);
        rep.seen("declarations", hash_str(&ctx));
        if w.preds.len() >= 2 {
            rep.seen("truth_assignments", hash_str(&format!("{:?}", w.preds)));
        }
        match (&dw, &rw) {
            (Ok(d), Ok(r)) => {
                rep.count("ids.legal");
                if !same_ids(d, r) {
                    let tags: &[&'static str] = if w.preds.is_empty() { &["C15"] } else { &["C15", "C16"] };
                    rep.violate(tags, "ids", format!("{ctx}: macro assigned {:?}, the discriminant rule gives {:?}", d.archetypes, r));
                    break;
                }
                if d.name != world_name(&w) {
                    rep.violate(&["C15"], "ids", format!("{ctx}: world name {}", d.name));
                    break;
                }
            }
            (Err(m), Err(e)) => {
                let ok = match e {
                    IdErr::Duplicate => m.contains("already assigned"),
                    IdErr::Past255 => m.contains("may not exceed 255"),
                };
                rep.count(if *e == IdErr::Duplicate { "ids.rejected.duplicate" } else { "ids.rejected.past255" });
                if !ok {
                    // which of two simultaneous errors is reported first is not specified
                    rep.count("ids.rejected.other_message");
                }
            }
            (Ok(d), Err(e)) => {
                rep.violate(&["C15"], "ids", format!("{ctx}: accepted with ids {:?} although the rule rejects it ({:?})", d.archetypes, e));
                break;
            }
            (Err(m), Ok(_)) => {
                rep.violate(&["C15"], "ids", format!("{ctx}: rejected ({m}) although the declaration is legal"));
                break;
            }
        }
        let (Ok(d), Ok(r)) = (dw, rw) else { continue };
        // ---- C16: the twin (false items deleted, true items unannotated) gives the same world ----
        if !w.preds.is_empty() {
            let t = twin_world(&w);
            match data_world(&t) {
                Ok(Ok(td)) => {
                    rep.count("cfg.world_twins_compared");
                    if format!("{:?}", td.archetypes) != format!("{:?}", d.archetypes) {
                        rep.violate(&["C16"], "cfg-twin", format!("{ctx}: decorated world {:?} differs from its twin {:?}", d.archetypes, td.archetypes));
                        break;
                    }
                }
                other => {
                    rep.violate(&["C16"], "cfg-twin", format!("{ctx}: twin declaration rejected: {:?}", other.map(|x| x.map(|_| ()))));
                    break;
                }
            }
        }
        // ---- C18: the cfg-probing chain emitted for this declaration, and ecs_component_id! ----
        {
            let body = world_body_src(&w);
            let chain = catch_unwind(AssertUnwindSafe(|| -> Result<TokenStream, String> {
                let ts = TokenStream::from_str(&body).map_err(|e| e.to_string())?;
                let parsed: parse::ParseEcsWorld = syn::parse2(ts.clone()).map_err(|e| e.to_string())?;
                Ok(generate::generate_cfg_checks_outer("world", &parsed, ts))
            }));
            match chain {
                Ok(Ok(ts)) => {
                    rep.count("cfg_chain_expansions_scanned");
                    if walk::has_unsafe(ts) {
                        rep.violate(&["C18"], "unsafe-token", format!("{ctx}: the cfg-probing chain contains `unsafe`"));
                        break;
                    }
                }
                _ => {
                    rep.violate(&["C16", "C18"], "declaration", format!("{ctx}: generate_cfg_checks_outer failed"));
                    break;
                }
            }
            if let Ok(cid) = syn::parse2::<parse::ParseEcsComponentId>(TokenStream::from_str("Ca, Aa").unwrap()) {
                if walk::has_unsafe(generate::generate_ecs_component_id(cid)) {
                    rep.violate(&["C18"], "unsafe-token", "ecs_component_id! expansion contains `unsafe`".into());
                    break;
                }
            }
        }
        // ---- C18: the world expansion ----
        let wt = catch_unwind(AssertUnwindSafe(|| generate::generate_world(&d, &ctx)));
        match wt {
            Ok(ts) => {
                rep.count("world_expansions_scanned");
                if walk::has_unsafe(ts) {
                    rep.violate(&["C18"], "unsafe-token", format!("{ctx}: world expansion contains `unsafe`"));
                    break;
                }
            }
            Err(_) => {
                rep.violate(&["C15", "C18"], "declaration", format!("{ctx}: generate_world panicked"));
                break;
            }
        }
        // ---- C05 / C16: queries ----
        let b64 = d.to_base64();
        for _ in 0..4 {
            let q = gen_query(&mut rng, &w, &opts, false);
            let want = ref_match(&r, &q);
            let qctx = format!("{ctx} query |{}|", params_src(&q));
            let shape = match &want {
                Err(e) => format!("{:?}", e),
                Ok(m) if m.len() == r.len() => "all".to_string(),
                Ok(m) if m.len() == 1 => "singleton".to_string(),
                Ok(_) => "proper-subset".to_string(),
            };
            rep.count(&format!("match_shape.{shape}"));
            rep.seen("queries", hash_str(&qctx));
            for mac in MACS {
                rep.count("query_expansions");
                let got = match expand(mac, &b64, &q) {
                    Ok(g) => g,
                    Err(e) => {
                        let tags: &[&'static str] = if e.contains("UNSAFE-TOKEN") { &["C18"] } else { &["C05"] };
                        rep.violate(tags, "expansion", format!("{qctx} [{}]: {e}", mac.name()));
                        break;
                    }
                };
                match (&got, &want) {
                    (Ok(ts), Ok(m)) => {
                        if judge_expansion(&mut rep, mac, &q, m, ts.clone(), &format!("{qctx} [{}]", mac.name())) {
                            rep.count("expansions_judged");
                        }
                        // C16 twin: same matched archetypes and types for the enabled parameters
                        if !q.preds.is_empty() && !rep.failed() {
                            let tq = twin_query(&q);
                            match expand(mac, &b64, &tq) {
                                Ok(Ok(tts)) => {
                                    let tm = ref_match(&r, &tq);
                                    if let Ok(tm) = tm {
                                        rep.count("cfg.query_twins_compared");
                                        let a: Vec<&String> = m.iter().map(|x| &x.0).collect();
                                        let b: Vec<&String> = tm.iter().map(|x| &x.0).collect();
                                        if a != b {
                                            rep.violate(&["C16"], "cfg-twin", format!("{qctx}: reference twin mismatch {:?} vs {:?}", a, b));
                                        }
                                        judge_expansion(&mut rep, mac, &tq, &tm, tts, &format!("twin of {qctx} [{}]", mac.name()));
                                    }
                                }
                                Ok(Err(e)) => rep.violate(&["C16"], "cfg-twin", format!("{qctx} [{}]: compiles decorated but its twin is rejected: {e}", mac.name())),
                                Err(e) => rep.violate(&["C16"], "cfg-twin", format!("{qctx}: {e}")),
                            }
                        }
                    }
                    (Err(msg), Err(e)) => {
                        let ok = match e {
                            QErr::NoMatch => msg.contains("matched no archetypes"),
                            QErr::Ambiguous => msg.contains("ambiguous"),
                            QErr::CfgOnOneOf => msg.contains("not currently supported on OneOf"),
                        };
                        rep.count(&format!("rejected.{:?}", e));
                        if !ok {
                            // an ambiguous OneOf and an empty match set can coincide; either rejection is fine
                            rep.count("rejected.other_message");
                        }
                    }
                    (Ok(_), Err(e)) => {
                        rep.violate(if qctx.contains("#[cfg(") { &["C05", "C16"] } else { &["C05"] }, "reject", format!("{qctx} [{}]: expands although the reference rejects it ({:?})", mac.name(), e));
                    }
                    (Err(msg), Ok(m)) => {
                        rep.violate(if qctx.contains("#[cfg(") { &["C05", "C16"] } else { &["C05"] }, "reject", format!("{qctx} [{}]: rejected ({msg}) although it matches {:?}", mac.name(), m.iter().map(|x| &x.0).collect::<Vec<_>>()));
                    }
                }
                if rep.failed() {
                    break;
                }
            }
            if rep.failed() {
                break;
            }
        }
    }
    rep
}
