//! gecs-mlib (engine E3): the gecs_macros sources driven as a library. `data.rs`, `parse/`
//! and `generate/` are included verbatim from /repo by #[path]; only `lib.rs` (the
//! proc_macro entry points) is left out.
#![allow(dead_code, unused_imports, clippy::all)]

#[path = "/repo/macros/src/data.rs"]
mod data;
#[path = "/repo/macros/src/generate/mod.rs"]
mod generate;
#[path = "/repo/macros/src/parse/mod.rs"]
mod parse;

mod e3;
mod emit;
mod gen;
mod rng;
mod walk;

use std::str::FromStr;

fn main() {
    let argv: Vec<String> = std::env::args().collect();
    if argv.get(1).map(|s| s.as_str()) == Some("show") {
        let seed: u64 = argv[2].parse().unwrap();
        let mut rng = rng::Rng::new(seed, 0);
        let opts = gen::GenOpts { use_cfg: true, feature_bits: None, allow_id_errors: false, max_archs: 3 };
        let w = gen::gen_world(&mut rng, &opts);
        let body = gen::world_body_src(&w);
        println!("{body}");
        let ts = proc_macro2::TokenStream::from_str(&body).unwrap();
        let p: parse::ParseEcsWorld = syn::parse2(ts.clone()).unwrap();
        use parse::HasCfgPredicates;
        let order: Vec<String> = p.collect_all_cfg_predicates().iter().map(|t| t.to_string()).collect();
        println!("preds {:?} / {:?}", order, w.preds);
        let bools: Vec<String> = order.iter().map(|o| w.preds.iter().find(|x| proc_macro2::TokenStream::from_str(&x.text).unwrap().to_string() == *o).unwrap().truth.to_string()).collect();
        let dec = proc_macro2::TokenStream::from_str(&format!("({}), {{ {} }}", bools.join(","), body)).unwrap();
        let pd: parse::ParseCfgDecorated<parse::ParseEcsWorld> = syn::parse2(dec).unwrap();
        let dw = data::DataWorld::new(pd).unwrap();
        println!("{:?}\nref {:?}", dw, gen::ref_world(&w));
        let q = gen::gen_query(&mut rng, &w, &opts, true);
        println!("query |{}|", gen::params_src(&q));
        let b64 = dw.to_base64();
        let qt = proc_macro2::TokenStream::from_str(&format!("(), {{ \"{}\", world, |{}| {{ }} }}", b64, gen::params_src(&gen::GQuery { params: q.params.iter().map(|p| gen::GParam { cfgs: vec![], ..p.clone() }).collect(), preds: vec![] }))).unwrap();
        let pq: parse::ParseCfgDecorated<parse::ParseQueryIter> = syn::parse2(qt).unwrap();
        match generate::generate_query_iter(generate::FetchMode::Mut, pq) {
            Ok(t) => println!("ITER => {}", t),
            Err(e) => println!("ITER ERR {}", e),
        }
        println!("ref {:?}", gen::ref_match(&gen::ref_world(&w).unwrap(), &q));
        return;
    }
    let kv: std::collections::BTreeMap<String, String> = argv[2..].iter().filter_map(|a| a.split_once('=').map(|(k, v)| (k.to_string(), v.to_string()))).collect();
    let u = |k: &str, d: u64| kv.get(k).map(|v| v.parse().unwrap()).unwrap_or(d);
    match argv.get(1).map(|s| s.as_str()) {
        Some("e3") => {
            let rep = e3::run_e3(u("seed", 1), u("shard", 0), u("ops", 1000) as usize);
            println!("{}", rep.to_json("e3", &argv[1..].to_vec()));
            std::process::exit(if rep.failed() { 3 } else { 0 });
        }
        Some("emit") => {
            let bits = kv.get("features").map(|v| v.parse::<u8>().unwrap());
            emit::write_all(u("seed", 1), kv.get("out").expect("out=<dir>"), u("files", 2) as usize, u("cases", 10) as usize, u("negs", 10) as usize, bits).expect("write");
            println!("emitted");
        }
        Some("bare") => {
            emit::write_bare(u("seed", 1), kv.get("out").expect("out=<dir>"), u("files", 2) as usize, u("cases", 10) as usize).expect("write");
            println!("emitted");
        }
        Some("noop") => {
            println!("{{\"workload\":\"noop\",\"argv\":[],\"steps\":0,\"counters\":{{}},\"distinct\":{{}},\"samples\":[],\"violation\":null}}");
        }
        _ => {
            eprintln!("usage: gecs-mlib e3|emit|show key=value...");
            std::process::exit(4);
        }
    }
}
