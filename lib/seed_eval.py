#!/usr/bin/env python3
"""Runs checks against a seeded change: apply the diff to /repo, run the quick check(s), undo.
usage: seed_eval.py <seeded-dir> <PROP> [<PROP> ...]   (seeded-dir holds patch.diff)
Appends the outcome to <seeded-dir>/runs.json."""
import json
import os
import subprocess
import sys
import time

d = os.path.abspath(sys.argv[1])
props = sys.argv[2:]
patch = os.path.join(d, "patch.diff")
assert subprocess.run(["git", "-C", "/repo", "status", "--porcelain"], capture_output=True, text=True).stdout.strip() == "", "/repo not clean"
subprocess.run(["git", "-C", "/repo", "apply", patch], check=True)
runs = []
# evidence files are rewritten by every run; the committed ones must come from the unchanged tree
saved = {p: open(f"/verif/evidence/{p}.json").read() for p in props if os.path.exists(f"/verif/evidence/{p}.json")}
try:
    for p in props:
        t0 = time.time()
        r = subprocess.run(["./check", "run", p, "--tier", "quick"], cwd="/verif", capture_output=True, text=True)
        lines = [l for l in r.stdout.splitlines() if l.startswith(("VIOLATION", "INCONCLUSIVE", "KNOWN", "["))]
        first = ""
        for l in r.stderr.splitlines():
            if l.startswith("    ") or l.startswith("[E") or "differs" in l or l.startswith("[unsound") or l.startswith("[sound"):
                first = l.strip()[:600]
                break
        runs.append({"property": p, "exit": r.returncode, "seconds": round(time.time() - t0), "lines": lines[:4], "first_report": first})
        print(p, "exit", r.returncode, lines[:2], first[:300], flush=True)
finally:
    subprocess.run(["git", "-C", "/repo", "checkout", "--", "."], check=True)
    subprocess.run(["git", "-C", "/repo", "clean", "-fdq", "tests"], check=False)
    for p, txt in saved.items():
        open(f"/verif/evidence/{p}.json", "w").write(txt)
path = os.path.join(d, "runs.json")
old = json.load(open(path)) if os.path.exists(path) else []
json.dump(old + runs, open(path, "w"), indent=1)
