import json,sys
for line in sys.stdin.read().strip().splitlines():
    if not line.startswith('{'): print(line); continue
    d=json.loads(line)
    if 'early_violation' in d: print('EARLY', d); continue
    v=d['violation']
    print('steps',d['steps'],'violation', v and {k:(x if k!='trace' else x[-int(sys.argv[1]) if len(sys.argv)>1 else -10:]) for k,x in v.items()})
    if len(sys.argv)>2:
        for k,x in d['counters'].items(): print('  ',k,x)
        print(d['distinct'])
