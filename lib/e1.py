"""E1 (history harness) plans: which workloads, tools and sizes decide each property."""
from common import Config, Job

# (workload, world) -> relative cost per op (1 = churn on WMain); used only to scale op counts
COST = {}


def shards(cfg, workload, world, n, ops, seed, extra=(), timeout=1800, env_extra=None, nshards_arg=False, variant=""):
    jobs = []
    for s in range(n):
        argv = [workload, f"seed={seed}", f"shard={s}", f"ops={ops}", f"world={world}"] + list(extra)
        if nshards_arg:
            argv.append(f"nshards={n}")
        if cfg.tool.startswith("miri"):
            argv.append("small=1")
        jobs.append(Job(cfg, argv, timeout=timeout, env_extra=env_extra, variant=variant))
    return jobs


MIRI_NOLEAK = {"MIRIFLAGS": "-Zmiri-ignore-leaks"}
MIRI_TB = {"MIRIFLAGS": "-Zmiri-tree-borrows"}
MIRI_STRICT = {"MIRIFLAGS": "-Zmiri-strict-provenance -Zmiri-symbolic-alignment-check"}
ASAN_NOLEAK = {"ASAN_OPTIONS": "detect_leaks=0:halt_on_error=1:abort_on_error=0:exitcode=98"}


def lean_jobs(tier, seed, features=()):
    """The lean workload: almost all interpreted time inside gecs's unsafe code."""
    k = 1 if tier == "quick" else 5
    jobs = shards(Config("miri-dbg", features), "lean", "main", 2 * k, 1200, seed + 6000, timeout=3000)
    jobs += shards(Config("miri-rel", features), "lean", "main", 2 * k, 1200, seed + 6100, timeout=3000)
    jobs += shards(Config("asan", features), "lean", "main", 2, 60000 * k, seed + 6200, timeout=3000)
    # second opinions on the aliasing / provenance / alignment rules: same build, other interpreter settings
    jobs += shards(Config("miri-rel", features), "lean", "main", k, 1200, seed + 6400, timeout=3000, env_extra=MIRI_TB, variant="tree-borrows")
    jobs += shards(Config("miri-dbg", features), "lean", "main", k, 1200, seed + 6500, timeout=3000, env_extra=MIRI_STRICT, variant="strict-provenance+symbolic-alignment")
    if tier == "thorough":
        jobs += shards(Config("vg", features), "lean", "main", 4, 30000, seed + 6300, timeout=3000)
    return jobs


def history_plan(workload, tier, seed, features=(), native_ops=6000, miri_ops=60, asan_ops=3500, worlds=("main", "small"), tools=None, scale=1.0, leaks=True, extra=()):
    """Standard tool matrix for one history workload."""
    dbg, rel = Config("dbg", features), Config("rel", features)
    mdbg, mrel, asan, vg = Config("miri-dbg", features), Config("miri-rel", features), Config("asan", features), Config("vg", features)
    menv = None if leaks else MIRI_NOLEAK
    aenv = None if leaks else ASAN_NOLEAK
    jobs = []
    native_ops, miri_ops, asan_ops = int(native_ops * scale), max(20, int(miri_ops * scale)), int(asan_ops * scale)
    if tier == "quick":
        for world in worlds:
            n = 8 if world == "main" else 4
            jobs += shards(dbg, workload, world, n, native_ops, seed, extra)
            jobs += shards(rel, workload, world, n, native_ops * 2, seed + 1000, extra)
        jobs += shards(mdbg, workload, "main", 6, miri_ops, seed + 2000, extra, timeout=2400, env_extra=menv)
        jobs += shards(mrel, workload, "main", 6, miri_ops, seed + 3000, extra, timeout=2400, env_extra=menv)
        if "small" in worlds:
            jobs += shards(mdbg, workload, "small", 2, miri_ops * 2, seed + 2500, extra, timeout=2400, env_extra=menv)
            jobs += shards(mrel, workload, "small", 2, miri_ops * 2, seed + 3500, extra, timeout=2400, env_extra=menv)
        jobs += shards(asan, workload, "main", 8, asan_ops, seed + 4000, extra, env_extra=aenv)
    else:
        for world in worlds:
            n = 16 if world == "main" else 8
            jobs += shards(dbg, workload, world, n, native_ops * 8, seed, extra, timeout=3000)
            jobs += shards(rel, workload, world, n, native_ops * 16, seed + 1000, extra, timeout=3000)
        jobs += shards(mdbg, workload, "main", 16, miri_ops * 3, seed + 2000, extra, timeout=3000, env_extra=menv)
        jobs += shards(mrel, workload, "main", 16, miri_ops * 3, seed + 3000, extra, timeout=3000, env_extra=menv)
        if "small" in worlds:
            jobs += shards(mdbg, workload, "small", 6, miri_ops * 6, seed + 2500, extra, timeout=3000, env_extra=menv)
            jobs += shards(mrel, workload, "small", 6, miri_ops * 6, seed + 3500, extra, timeout=3000, env_extra=menv)
        jobs += shards(asan, workload, "main", 12, asan_ops * 6, seed + 4000, extra, timeout=3000, env_extra=aenv)
        if "small" in worlds:
            jobs += shards(asan, workload, "small", 6, asan_ops * 6, seed + 4500, extra, timeout=3000, env_extra=aenv)
        jobs += shards(vg, workload, "main", 8, native_ops // 2, seed + 5000, extra, timeout=3000, env_extra=None if leaks else {"VERIF_NOLEAK": "1"})
    if tools:
        jobs = [j for j in jobs if j.cfg.tool in tools]
    return jobs


class Prop:
    def __init__(self, pid, level, plan, accept, floors, rule, nontrivial_key, assumptions, design_ref, distinct_merge="max"):
        self.pid = pid
        self.level = level
        self.plan = plan  # fn(tier, seed) -> [Job]
        self.accept = set(accept)  # violation tags that refute this property
        self.floors = floors  # counter -> minimum total over the run, else inconclusive
        self.rule = rule
        self.nontrivial_key = nontrivial_key  # distinct-category used for distinct_nontrivial
        self.assumptions = assumptions
        self.design_ref = design_ref
        self.distinct_merge = distinct_merge  # max: lower bound of the union; sum: exact when processes enumerate disjoint cases


COMMON_ASSUME = [
    "the reference model in harness/src/model.rs states the property correctly",
    "hooks H1/H2 (--cfg gecs_verif) are read-only resp. only used on empty storages and do not change behaviour",
    "Miri (Stacked Borrows), AddressSanitizer/LeakSanitizer and the Rust toolchains are trusted as oracles for undefined behaviour",
    "held on the executions observed only: seeded histories, not all histories",
]

PROPS = {}


def reg(p):
    PROPS[p.pid] = p


reg(Prop(
    "C01", "exploration",
    lambda tier, seed: history_plan("churn", tier, seed) + lean_jobs(tier, seed),
    accept=["C01"],
    floors={"stale_probes_after_reuse": 1000, "growth_after_churn": 1, "stale_probes_after_2plus_reuses": 100, "max_lookup_matrix_cells": 60},
    rule="seeded random histories (create / create_within_capacity / destroy by 4 key kinds at world and archetype level / ecs_iter_destroy! / clone / drop / hot-slot recycling / drain-refill) on two worlds (7 archetypes incl. ZST, heap, over-aligned, 16 columns; 2 archetypes), from boundary-biased initial capacities; after every step every lookup path x key kind is probed for live and stale handles and the slot-map invariants are walked via hook H1. evaluations = history steps executed over all processes; distinct_nontrivial = distinct abstract storage states (len, capacity, free-list head, slot index array) seen by the invariant walker, largest single process (lower bound of the union)",
    nontrivial_key="storage_states",
    assumptions=COMMON_ASSUME,
    design_ref="DESIGN.md section 4, C01",
))


HIST = "seeded random histories on two worlds (7 archetypes incl. ZST-with-Drop, heap-owning, over-aligned and 16-column shapes with non-contiguous ids; 2 archetypes), boundary-biased initial capacities, phases that grow, shrink, drain and recycle single positions; "
STATES = "distinct_nontrivial = distinct abstract storage states (len, capacity, free-list head, slot index array) seen by the invariant walker in the largest single process (a lower bound of the union over processes)"

reg(Prop(
    "C02", "exploration",
    lambda tier, seed: history_plan("values", tier, seed) + lean_jobs(tier, seed),
    accept=["C02"],
    floors={"rows_compared": 100000, **{f"op.write.{n}": 20 for n in [
        "view.field", "view.component_mut", "World::view.component_mut", "borrow.component_mut", "World::borrow.component_mut",
        "ecs_find!(&mut)", "ecs_find_borrow!(&mut)", "resolve+get_slice_mut", "resolve+borrow_slice_mut", "resolve+get_all_slices_mut",
        "iter_mut", "ecs_iter!(&mut)", "ecs_iter_borrow!(&mut)", "ecs_iter_destroy!(&mut, Continue)"]},
        "read.destroy-return": 100, "pass.items": 10000},
    rule=HIST + "write-heavy mix: each write goes through one of 14 mutable access paths with one of the 4 key kinds and is then read back through every read path (11 row-returning lookups x 4 key kinds immediately; 8 per-archetype iteration paths and 6 cross-archetype queries x 3 macros periodically; the tuple returned by destroy); every cell carries a unique token so a swapped, stale or foreign cell is attributed. evaluations = history steps; " + STATES,
    nontrivial_key="storage_states", assumptions=COMMON_ASSUME, design_ref="DESIGN.md section 4, C02"))

reg(Prop(
    "C03", "exploration",
    lambda tier, seed: history_plan("forge", tier, seed, native_ops=2500, miri_ops=40, asan_ops=2500)
    + (shards(Config("vg"), "forge", "main", 8, 1500, seed + 5000, timeout=3000) if tier == "thorough" else []),
    accept=["C03"],
    floors={"forge.foreign_direct_minted": 200, "forge|free-slot-current-generation|absent": 1000, "forge|position==capacity|absent": 100,
            "forge|direct-index==len-current-version|absent": 100, "forge|undeclared-archetype-id|panic": 50, "forge|empty-archetype|absent": 100,
            "forge|bit-identical-to-live|accepted": 1000, "forge|uniform-random|absent": 1000},
    rule="churn history with, at every step, a batch of forged handles from boundary classes computed from the live state via hook H1 (free slot with its current generation, position == capacity / capacity+1 / 2^24-1, live slot with wrong generation, undeclared and foreign archetype id bytes, unchecked typed conversions between archetypes, empty archetypes, bit-identical copies, uniform random 64-bit values, direct handles minted in a second world with index == len / len+1 / capacity at the current archetype version) pushed through all 15 lookup paths and destroy at world and archetype level; accept only if bit-identical to a live handle and then the same entity; Miri/ASan/signals judge memory safety, in release profiles where the unchecked fast paths are live. distinct_nontrivial = distinct (class, API, key kind, outcome) combinations observed in the largest single process",
    nontrivial_key="forge_class_api_outcome", assumptions=COMMON_ASSUME + ["typed handles made by from_any_unchecked with a foreign id byte are compared by position+generation only in builds without debug assertions (documented by the crate as a logic error that stays memory-safe); such acceptances are counted, not flagged"],
    design_ref="DESIGN.md section 4, C03"))

reg(Prop(
    "C04", "exploration",
    lambda tier, seed: history_plan("drops", tier, seed) + lean_jobs(tier, seed),
    accept=["C04"],
    floors={"registry.drops_seen": 50000, "within_capacity_refused": 50, "drop_world.populated": 50, "clones_made": 50, "registry.zst_dropped": 500, "iter_destroy.destroyed": 200},
    rule=HIST + "every component value carries a unique token registered at creation; Drop/Clone impls report to a registry that flags drop of a non-live token, clone of a dropped token, tokens alive without an owner (leak) and tokens of live entities dropped; zero-sized Drop types are counted per type; worlds are cloned and dropped at arbitrary points; Miri's leak check, LeakSanitizer (and memcheck in the thorough tier) run with the allocator monitor in pass-through. evaluations = history steps; " + STATES,
    nontrivial_key="storage_states", assumptions=COMMON_ASSUME, design_ref="DESIGN.md section 4, C04"))

reg(Prop(
    "C06", "exploration",
    lambda tier, seed: history_plan("iter", tier, seed, scale=0.6) + lean_jobs(tier, seed),
    accept=["C06"],
    floors={"pass.items": 50000, "query.items": 50000, "iter.state.empty": 100, "iter.state.full": 20, "op.break.ecs_iter!": 20, "op.break.ecs_iter_borrow!": 20, "op.break.ecs_iter_destroy!": 20},
    rule=HIST + "after every step all 8 per-archetype iteration paths and 6 cross-archetype queries x 3 macros are run; each pass must yield exactly the model's live set (no omission, duplicate or stranger), each handle paired with its own cells; Break is returned at a chosen call k (first, last, random) and the closure must have run exactly k+1 times across all archetypes. distinct_nontrivial = distinct (query, macro, k, total) Break positions in the largest single process",
    nontrivial_key="break_positions", assumptions=COMMON_ASSUME, design_ref="DESIGN.md section 4, C06"))


def plan_c07(tier, seed):
    jobs = history_plan("iterdestroy", tier, seed, scale=0.6)
    nmax = 6 if tier == "quick" else 8
    n = 8 if tier == "quick" else 16
    for cfg, k in ((Config("dbg"), nmax), (Config("rel"), nmax), (Config("asan"), nmax - 1)):
        jobs += shards(cfg, "iterdestroy-exhaustive", "small", n, 0, seed, extra=[f"nmax={k}"], nshards_arg=True, timeout=3000)
    for cfg in (Config("miri-dbg"), Config("miri-rel")):
        jobs += shards(cfg, "iterdestroy-exhaustive", "small", 4 if tier == "quick" else 16, 0, seed, extra=[f"nmax={2 if tier == 'quick' else 3}"], nshards_arg=True, timeout=3000)
    return jobs


reg(Prop(
    "C07", "exploration", plan_c07,
    accept=["C07"],
    floors={"exhaustive.loops": 30000, "iter_destroy.visits": 50000, "direct_obtained|ecs_iter_destroy!": 1000, "iter_destroy.broke": 1000},
    rule="(a) exhaustive: every decision function (4^n assignments of Continue/ContinueDestroy/Break/BreakDestroy, keyed by entity, not by visiting order) for every population (n1, n2), n1+n2 <= 6 (quick) / 8 (thorough) of the two-archetype world from three prior histories (exact capacity, after churn, grown from 0), each on a fresh clone, followed by the full probe suite; (b) random: ecs_iter_destroy! over 6 cross-archetype queries and per-archetype typed loops embedded in churn histories. Oracle: visited set == matched live set unless a Break, nothing after a Break, exactly the flagged destroyed, survivors unchanged, direct handles handed to the closure judged by C09's rule. distinct_nontrivial = number of (history shape, n1, n2, decision function) cases enumerated (exact: processes enumerate disjoint cases)",
    nontrivial_key="exhaustive_cases", assumptions=COMMON_ASSUME, design_ref="DESIGN.md section 4, C07", distinct_merge="sum"))


def plan_c08(tier, seed):
    jobs = history_plan("churn", tier, seed, scale=0.5, tools=("dbg", "rel", "asan"))
    k = 1 if tier == "quick" else 6
    for world in ("main", "small"):
        jobs += shards(Config("dbg"), "overflow", world, 4, 3000 * k, seed + 10, timeout=3000)
        jobs += shards(Config("rel"), "overflow", world, 4, 6000 * k, seed + 11, timeout=3000)
        jobs += shards(Config("dbg", ["wrapping_version"]), "overflow", world, 2, 3000 * k, seed + 12, timeout=3000)
        jobs += shards(Config("rel", ["wrapping_version"]), "overflow", world, 2, 6000 * k, seed + 13, timeout=3000)
    jobs += shards(Config("miri-dbg"), "overflow", "main", 4 * k, 60, seed + 14, timeout=3000)
    jobs += shards(Config("miri-rel"), "overflow", "small", 4 * k, 90, seed + 15, timeout=3000)
    jobs += shards(Config("asan"), "overflow", "main", 4, 3000 * k, seed + 16, timeout=3000)
    if tier == "thorough":
        jobs.append(Job(Config("rel"), ["realoverflow"], timeout=3000))
        jobs.append(Job(Config("rel", ["wrapping_version"]), ["realoverflow"], timeout=3000))
    return jobs


reg(Prop(
    "C08", "exploration", plan_c08,
    accept=["C08"],
    floors={"handles_issued": 100000, "overflow.panic.arch": 100, "overflow.scenarios": 100, "max_generation_seen": 4294967295},
    rule="every handle returned by any create path is checked against the set of all handles ever issued in its world (all archetypes together) in churn histories with hot-slot recycling; near 2^32 the hook H2 presets empty archetypes to reachable counter combinations (one position and the archetype at u32::MAX-j; two positions around 2^31; many small counters summing to u32::MAX-j) and ordinary churn, ecs_iter_destroy! and clone cross the boundary: default configuration => the overflowing destroy must panic ('version overflow') and never reissue; wrapping_version => no panic, a reissue is tolerated only after >= 2^32-1 releases of the position. Thorough adds a hook-free run of 2^32-2 real create/destroy cycles. distinct_nontrivial = distinct (archetype, preset shape, distance j, capacity) overflow scenarios in the largest single process",
    nontrivial_key="overflow_scenarios", assumptions=COMMON_ASSUME + ["H2 only presets counter combinations satisfying archetype_version - 1 == sum(slot_version - 1), i.e. states a real history reaches"],
    design_ref="DESIGN.md section 4, C08"))

def plan_c09(tier, seed):
    jobs = history_plan("direct", tier, seed)
    # direct handles next to the 2^32 boundary of the archetype version (H2 presets), in the default
    # and in the wrapping_version configuration: a removal must still invalidate them
    k = 1 if tier == "quick" else 6
    for feats in ((), ("wrapping_version",)):
        jobs += shards(Config("dbg", feats), "overflow", "main", 2, 2500 * k, seed + 20, timeout=3000)
        jobs += shards(Config("rel", feats), "overflow", "small", 2, 5000 * k, seed + 21, timeout=3000)
    return jobs


reg(Prop(
    "C09", "exploration", plan_c09,
    accept=["C09"],
    floors={"direct|no-removal|no-creation|accepted": 10000, "direct|removal-since|creation-since|rejected": 10000, "direct|no-removal|creation-since|accepted": 1000,
            "direct_obtained|ecs_iter_destroy!": 500, "direct_obtained|World::to_direct": 1000, "direct_obtained|Archetype::to_direct": 1000, "direct_obtained|ecs_find!(wild params)": 1000,
            "direct_obtained|ecs_find_borrow!(typed params)": 1000, "direct_obtained|ecs_iter_borrow!(Entity<A>)": 200, "direct_obtained|ecs_iter!(Entity<A>)": 200, "direct_obtained|ecs_iter_borrow!": 200},
    rule=HIST + "direct handles are harvested at every step from to_direct (4 key kinds, world and archetype level) and from EntityDirect<A> / EntityDirect<_> / EntityDirectAny closure parameters of all five query macros, stamped with the archetype's removal/creation counters, and re-probed later through every lookup path and destroy as typed and dynamic direct keys: removal since issue => must be rejected; no structural change => must be accepted and designate the entity it was issued for; creations only => either, but if accepted the same entity. evaluations = history steps; " + STATES,
    nontrivial_key="storage_states", assumptions=COMMON_ASSUME, design_ref="DESIGN.md section 4, C09"))


def plan_c10(tier, seed):
    jobs = history_plan("faults", tier, seed, leaks=False, scale=0.7)
    k = 1 if tier == "quick" else 6
    jobs += shards(Config("dbg"), "overflow", "main", 4, 2500 * k, seed + 20, timeout=3000)
    jobs += shards(Config("rel"), "overflow", "small", 4, 5000 * k, seed + 21, timeout=3000)
    jobs += shards(Config("miri-rel"), "overflow", "main", 3 * k, 60, seed + 22, timeout=3000, env_extra=MIRI_NOLEAK)
    jobs += shards(Config("asan"), "overflow", "main", 4, 2500 * k, seed + 23, timeout=3000, env_extra=ASAN_NOLEAK)
    for mode in (0, 2):
        jobs.append(Job(Config("rel"), ["bigcap", f"mode={mode}"], timeout=1200))
    jobs.append(Job(Config("dbg"), ["bigcap", "mode=1"], timeout=1200))
    if tier == "thorough":
        jobs.append(Job(Config("rel"), ["realoverflow"], timeout=3000))
        jobs.append(Job(Config("asan"), ["bigcap", "mode=2"], timeout=3000, env_extra=ASAN_NOLEAK))
    return jobs


reg(Prop(
    "C10", "fault_enumeration", plan_c10,
    accept=["C10", "ANY"],
    floors={"faults_survived": 1000, "fault.fired.find-closure": 20, "fault.fired.write-closure": 20, "fault.fired.iter-closure": 5, "fault.fired.query-closure": 10,
            "fault.fired.clone": 20, "fault.fired.world-drop": 20, "fault.fired.dynamic-destroy-drop": 20, "fault.fired.iter-borrow-closure": 10,
            "fault.iter_destroy.closure": 10, "fault.iter_destroy.drop": 5, "overflow.panic.arch": 50, "overflow.panic.in_iter_destroy": 5, "create_at_limit_panicked": 2},
    rule="a countdown injector panics at the k-th callback of a chosen kind inside a gecs operation: closure call k of ecs_find!/ecs_find_borrow! (reading and writing), of ecs_iter!/ecs_iter_borrow!/ecs_iter_destroy! over one archetype and over cross-archetype queries, Clone::clone number k during world.clone(), Drop::drop number k during world drop, during dynamic-key destroy and during ecs_iter_destroy!'s internal drop, with k uniform over what the instance admits; plus the documented panics: archetype/slot version overflow in destroy and ecs_iter_destroy! (hook H2), 'capacity overflow' and 'capacity may not exceed' at 2^24 (real, no hook). The panic is caught; the entity under operation must be fully present or fully absent; then invariants (H1), the full probe suite, iteration, registry (no double drop, no drop of garbage) run immediately and during >= dozens of further random operations and at world drop. Leak detection is off here (a panic may leak). distinct_nontrivial = distinct fault points (operation x callback kind x k x target) in the largest single process",
    nontrivial_key="fault_points", assumptions=COMMON_ASSUME + ["a second panic during unwinding (abort by language rule) and allocation failure (abort) are out of scope"],
    design_ref="DESIGN.md section 4, C10"))


def plan_c11(tier, seed):
    jobs = []
    r = 50 if tier == "quick" else 2000
    for cfg, n, rr in ((Config("dbg"), 4, r), (Config("rel"), 4, r), (Config("miri-dbg"), 8, 1), (Config("miri-rel"), 8, 1), (Config("asan"), 2, r)):
        if cfg.tool.startswith("miri"):
            if tier == "thorough":
                jobs += shards(cfg, "borrow", "small", 16, 8, seed, nshards_arg=True, timeout=3000)
            else:
                # quick: the interpreter sees every pair once - even sixteenths of the matrix with
                # debug assertions on, odd sixteenths with them off (natively every pair runs in both)
                off = 0 if cfg.tool == "miri-dbg" else 1
                for s in range(n):
                    jobs.append(Job(cfg, ["borrow", f"seed={seed}", f"shard={2 * s + off}", f"ops={rr}", "world=small", "nshards=16", "small=1"], timeout=3000))
            continue
        jobs += shards(cfg, "borrow", "small", n, rr, seed, nshards_arg=True, timeout=3000)
    jobs += history_plan("faults", tier, seed + 7, leaks=False, scale=0.25, tools=("dbg", "rel"), worlds=("small",))
    return jobs


reg(Prop(
    "C11", "exploration", plan_c11,
    accept=["C11"],
    floors={"judged.conflict": 2000, "judged.compatible": 30000, "conflict.panicked_as_required": 2000, "boom.unwound_through_borrow": 100, "nests": 20000},
    rule="exhaustive depth-2 matrix: outer x inner over 79 accesses {ecs_find_borrow!, Borrow::component(_mut) (archetype and world level)} x {shared, mutable} x {2 archetypes} x {2 columns} x {entity 0, entity 1, stale handle}, {ecs_iter_borrow!, borrow_slice(_mut)} x {shared, mutable} x archetypes x columns, world.clone(), and - with parameters the macros have to resolve themselves - ecs_find_borrow!/ecs_iter_borrow! over &(mut) OneOf<Pa, Pb> (a different column in each archetype), ecs_find_borrow! with an EntityAny key and |&EntityAny, &(mut) Ha| (query matches both archetypes, the key picks one) and ecs_iter_borrow! over |&EntityAny, &(mut) Ha| (holds one archetype's column at a time), in three world states (both populated, either archetype empty) = 18723 pairs, plus injected panics unwinding through one and two held borrows and random depth 3-5 nestings. A shadow of RefCell's reader/writer rule per (archetype, column) decides for every inner access: conflict => must panic with a borrow error, compatible => must be granted and see the model's values; after each nest every column must accept borrow_slice_mut again. Miri's aliasing model is the independent second opinion on the same matrix (quick tier: each pair interpreted once, half of the matrix with debug assertions on and half with them off; thorough: all of it in both profiles). distinct_nontrivial = depth-2 pairs enumerated (exact: processes enumerate disjoint cases; repeated per tool)",
    nontrivial_key="depth2_pairs", assumptions=COMMON_ASSUME, design_ref="DESIGN.md section 4, C11", distinct_merge="sum"))


def plan_c12(tier, seed):
    jobs = history_plan("capacity", tier, seed)
    for mode in (0, 1, 2):
        jobs.append(Job(Config("rel"), ["bigcap", f"mode={mode}"], timeout=1200))
    jobs.append(Job(Config("dbg"), ["bigcap", "mode=2"], timeout=1200))
    jobs.append(Job(Config("asan"), ["bigcap", "mode=0"], timeout=1200))
    return jobs


reg(Prop(
    "C12", "exploration", plan_c12,
    accept=["C12"],
    floors={"refill_cycles": 200, "alloc_windows_checked": 10000, "within_capacity_refused": 200, "growth_steps": 100, "growth_after_churn": 20,
            "create_at_limit_panicked": 4, "with_capacity_over_limit_panicked": 4, "drain_refill.evens": 5, "drain_refill.prefix": 5, "drain_refill.suffix": 5, "drain_refill.random": 5, "drain_refill.all": 5},
    rule=HIST + "len/is_empty/capacity are compared with the model after every step; a counting global allocator asserts zero allocator calls inside every create below capacity and every create_within_capacity; drain patterns (evens, prefix, suffix, random subset, all) are followed by a refill to exactly capacity() that must succeed without growth and then be refused, with the argument handed back intact; the free list is walked via H1 (exactly capacity-len distinct free positions, no cycle); real runs to 2^24 entities from initial capacity 2^24, 2^24-1 and 0 check the limit panics and that nothing is corrupted. evaluations = history steps + 2^24-scale creations; " + STATES,
    nontrivial_key="storage_states", assumptions=COMMON_ASSUME, design_ref="DESIGN.md section 4, C12"))

def plan_c13(tier, seed):
    jobs = history_plan("clone", tier, seed, miri_ops=40)
    # pending events must be cloned too: the same workload built with the events feature
    k = 1 if tier == "quick" else 6
    jobs += shards(Config("dbg", ("events",)), "clone", "main", 3, 2500 * k, seed + 30, timeout=3000)
    jobs += shards(Config("rel", ("events",)), "clone", "small", 3, 5000 * k, seed + 31, timeout=3000)
    return jobs


reg(Prop(
    "C13", "exploration", plan_c13,
    accept=["C13"],
    floors={"clones_made": 500, "clone.src_state.cap0": 5, "clone.src_state.empty": 5, "clone.src_state.full": 5, "clone.src_state.partial-after-churn": 50, "refill_cycles": 50},
    rule=HIST + "worlds are cloned at arbitrary points (up to 4 alive): right after clone() the raw bookkeeping dumps (H1), pending events and every probe (all lookup paths for live, stale and direct handles; iteration) must agree between clone and source, each live component cloned exactly once; then both diverge under independent random histories with full probes of both, including drain/refill-to-capacity on clones; any violation in a world of a clone lineage is attributed to C13. evaluations = history steps; " + STATES,
    nontrivial_key="storage_states", assumptions=COMMON_ASSUME, design_ref="DESIGN.md section 4, C13"))


def plan_c14(tier, seed):
    k = 1 if tier == "quick" else 20
    jobs = shards(Config("dbg"), "convert", "main", 8, 60000 * k, seed, timeout=3000)
    jobs += shards(Config("rel"), "convert", "main", 8, 200000 * k, seed + 1, timeout=3000)
    jobs += shards(Config("asan"), "convert", "main", 2, 30000 * k, seed + 2, timeout=3000)
    jobs += shards(Config("miri-dbg"), "convert", "main", 3, 150, seed + 3, timeout=3000)
    jobs += shards(Config("miri-rel"), "convert", "main", 3, 150, seed + 4, timeout=3000)
    jobs += history_plan("churn", tier, seed + 5, scale=0.3, tools=("dbg", "rel"))
    return jobs


reg(Prop(
    "C14", "exploration", plan_c14,
    accept=["C14"],
    floors={"typed_conversions": 1000000, "select_archetype_ids_checked": 256, "eq_pairs": 100000, "direct_handles_checked": 60, "handles_issued": 10000},
    rule="pure-function assertions over raw (key, generation) pairs: the cross product of boundary positions {0,1,2,255,256,2^24-2,2^24-1} x all 256 id bytes x generations {0,1,2,2^31,u32::MAX-1,u32::MAX} (exhaustive over ids), plus seeded random pairs: from_raw is Err iff generation 0; raw round trip; archetype_id == low byte; for every declared archetype try_from is Ok iff the id matches and round-trips, from_any panics iff mismatch, reference conversions preserve the value; SelectArchetype::try_from over all 256 ids, SelectEntity/SelectEntityDirect map each declared id to its own variant; == iff raw bits equal, equal => equal hashes, HashSet sizes; direct handles minted by real worlds; every handle created in churn histories carries its creator's ARCHETYPE_ID. Miri runs a reduced set (reference transmutes). distinct_nontrivial = boundary values enumerated per process (identical in every process)",
    nontrivial_key="boundary_values", assumptions=COMMON_ASSUME, design_ref="DESIGN.md section 4, C14"))

def plan_c17(tier, seed):
    jobs = history_plan("events", tier, seed, features=("events",))
    # a destroy that panics on version overflow must not have logged the entity
    k = 1 if tier == "quick" else 5
    jobs += shards(Config("dbg", ("events",)), "overflow", "main", 3, 2500 * k, seed + 40, timeout=3000)
    jobs += shards(Config("rel", ("events",)), "overflow", "small", 3, 5000 * k, seed + 41, timeout=3000)
    return jobs


reg(Prop(
    "C17", "exploration", plan_c17,
    accept=["C17"],
    floors={"events.checks": 5000, "events.size_hints_checked": 50000, "op.clear_events.world": 20, "op.clear_events.archetype": 50, "iter_destroy.destroyed": 100, "clones_made": 20},
    rule=HIST + "built with the events feature: after every step each archetype's iter_created / iter_destroyed is compared (as multisets) with the handles the model saw created / destroyed since the last clear, through both create paths, all four destroy key kinds at both levels and ecs_iter_destroy!; the world-level iterators are stepped one next() at a time with size_hint checked at every position (and after exhaustion) and must yield exactly the union; clears at archetype and world level at random points; clones must carry pending events. distinct_nontrivial = distinct per-archetype (created-log empty?, destroyed-log empty?) patterns seen by the world iterator check in the largest single process",
    nontrivial_key="event_log_emptiness_patterns", assumptions=COMMON_ASSUME, design_ref="DESIGN.md section 4, C17"))


FEATS = ["events", "wrapping_version", "c32"]


def all_feature_sets():
    out = []
    for m in range(8):
        out.append(tuple(f for i, f in enumerate(FEATS) if m & (1 << i)))
    return out


def plan_c19(tier, seed):
    jobs = []
    sets = [(), tuple(FEATS)] if tier == "quick" else all_feature_sets()
    ops = 2500 if tier == "quick" else 12000
    for fs in sets:
        for tool in ("dbg", "rel"):
            cfg = Config(tool, fs)
            for wl in ("churn", "values", "drops", "direct", "capacity", "clone", "iter", "iterdestroy", "events", "faults"):
                # same (workload, seed, shard, ops) in every configuration: digests are compared
                jobs += shards(cfg, wl, "main", 1, ops, seed + 7, timeout=3000)
                jobs += shards(cfg, wl, "small", 1, ops, seed + 8, timeout=3000)
            jobs += shards(cfg, "overflow", "main", 2, ops, seed + 9, timeout=3000)
            jobs += shards(cfg, "forge", "main", 1, ops // 2, seed + 10, timeout=3000)
            jobs += shards(cfg, "convert", "main", 1, 20000, seed + 11, timeout=3000)
            jobs += shards(cfg, "borrow", "small", 1, 20, seed + 12, nshards_arg=True, timeout=3000)
            jobs += shards(cfg, "iterdestroy-exhaustive", "small", 1, 0, seed, extra=["nmax=5"], nshards_arg=True, timeout=3000)
    msets = [tuple(FEATS)] if tier == "quick" else [(), tuple(FEATS), ("wrapping_version",)]
    for fs in msets:
        n = 3 if tier == "quick" else 8
        jobs += shards(Config("miri-rel", fs), "churn", "main", n, 60, seed + 20, timeout=3000)
        jobs += shards(Config("miri-rel", fs), "overflow", "main", n, 60, seed + 21, timeout=3000)
        jobs += shards(Config("miri-dbg", fs), "drops", "main", n, 60, seed + 22, timeout=3000)
        if tier == "thorough":
            jobs += shards(Config("asan", fs), "churn", "main", 4, ops, seed + 23, timeout=3000)
            jobs += shards(Config("asan", fs), "overflow", "main", 4, ops, seed + 24, timeout=3000)
    if tier == "thorough":
        jobs.append(Job(Config("rel", ("wrapping_version",)), ["realoverflow"], timeout=3000))
    return jobs


reg(Prop(
    "C19", "exploration", plan_c19,
    accept=["ANY", "C19"],
    floors={"handles_issued": 50000, "overflow.scenarios": 50, "events.checks": 1000},
    rule="the E1 suite (churn, values, drops, direct, capacity, clone, iter, iterdestroy, events, faults, overflow, forge, convert, borrow matrix, exhaustive iter_destroy) is rebuilt and re-run per configuration: quick = feature sets {} and {events, wrapping_version, 32_components} x {debug assertions on, off} + Miri on the all-features build; thorough = all 8 feature sets x {dbg, rel} + Miri and ASan on {}, all, wrapping_version + a hook-free 2^32-cycle wraparound. Every oracle of every other property must hold in every configuration; the observation digest (handles issued, capacities, destroy order) of the same seeded history must be identical across all configurations with the same world shape (the 17- and 32-column archetypes exist only with 32_components); wrapping_version crosses the 2^32 boundary (hook H2) without panic, UB or a generation 0; E2 verdict programs check that 17 columns need 32_components, 33 are always rejected and iter_created exists only with events. distinct_nontrivial = distinct (tool, feature set) configurations run",
    nontrivial_key=None, assumptions=COMMON_ASSUME, design_ref="DESIGN.md section 4, C19"))
