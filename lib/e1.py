"""E1 (history harness) plans: which workloads, tools and sizes decide each property."""
from common import Config, Job

# (workload, world) -> relative cost per op (1 = churn on WMain); used only to scale op counts
COST = {}


def shards(cfg, workload, world, n, ops, seed, extra=(), timeout=600):
    jobs = []
    for s in range(n):
        argv = [workload, f"seed={seed}", f"shard={s}", f"ops={ops}", f"world={world}"] + list(extra)
        if cfg.tool.startswith("miri"):
            argv.append("small=1")
        jobs.append(Job(cfg, argv, timeout=timeout))
    return jobs


def history_plan(workload, tier, seed, features=(), native_ops=6000, miri_ops=70, asan_ops=6000, worlds=("main", "small"), tools=None):
    """Standard tool matrix for one history workload."""
    dbg, rel = Config("dbg", features), Config("rel", features)
    mdbg, mrel, asan, vg = Config("miri-dbg", features), Config("miri-rel", features), Config("asan", features), Config("vg", features)
    jobs = []
    if tier == "quick":
        for world in worlds:
            n = 8 if world == "main" else 4
            jobs += shards(dbg, workload, world, n, native_ops, seed)
            jobs += shards(rel, workload, world, n, native_ops * 2, seed + 1000)
        jobs += shards(mdbg, workload, "main", 6, miri_ops, seed + 2000, timeout=900)
        jobs += shards(mrel, workload, "main", 6, miri_ops, seed + 3000, timeout=900)
        jobs += shards(mdbg, workload, "small", 2, miri_ops * 2, seed + 2500, timeout=900)
        jobs += shards(mrel, workload, "small", 2, miri_ops * 2, seed + 3500, timeout=900)
        jobs += shards(asan, workload, "main", 8, asan_ops, seed + 4000)
    else:
        for world in worlds:
            n = 16 if world == "main" else 8
            jobs += shards(dbg, workload, world, n, native_ops * 8, seed, timeout=3000)
            jobs += shards(rel, workload, world, n, native_ops * 16, seed + 1000, timeout=3000)
        jobs += shards(mdbg, workload, "main", 24, miri_ops * 3, seed + 2000, timeout=3000)
        jobs += shards(mrel, workload, "main", 24, miri_ops * 3, seed + 3000, timeout=3000)
        jobs += shards(mdbg, workload, "small", 8, miri_ops * 6, seed + 2500, timeout=3000)
        jobs += shards(mrel, workload, "small", 8, miri_ops * 6, seed + 3500, timeout=3000)
        jobs += shards(asan, workload, "main", 16, asan_ops * 8, seed + 4000, timeout=3000)
        jobs += shards(asan, workload, "small", 8, asan_ops * 8, seed + 4500, timeout=3000)
        jobs += shards(vg, workload, "main", 8, native_ops // 2, seed + 5000, timeout=3000)
    if tools:
        jobs = [j for j in jobs if j.cfg.tool in tools]
    return jobs


class Prop:
    def __init__(self, pid, level, plan, accept, floors, rule, nontrivial_key, assumptions, design_ref):
        self.pid = pid
        self.level = level
        self.plan = plan  # fn(tier, seed) -> [Job]
        self.accept = set(accept)  # violation tags that refute this property
        self.floors = floors  # counter -> minimum total over the run, else inconclusive
        self.rule = rule
        self.nontrivial_key = nontrivial_key  # distinct-category used for distinct_nontrivial
        self.assumptions = assumptions
        self.design_ref = design_ref


COMMON_ASSUME = [
    "the reference model in harness/src/model.rs states the property correctly",
    "hooks H1/H2 (--cfg gecs_verif) are read-only resp. only used on empty storages and do not change behaviour",
    "Miri (Stacked Borrows), AddressSanitizer/LeakSanitizer and the Rust toolchains are trusted as oracles for undefined behaviour",
    "held on the executions observed only: seeded histories, not all histories",
]

PROPS = {}


def reg(p):
    PROPS[p.pid] = p


reg(Prop(
    "C01", "exploration",
    lambda tier, seed: history_plan("churn", tier, seed),
    accept=["C01"],
    floors={"stale_probes_after_reuse": 1000, "growth_after_churn": 1, "stale_probes_after_2plus_reuses": 100, "max_lookup_matrix_cells": 60},
    rule="seeded random histories (create / create_within_capacity / destroy by 4 key kinds at world and archetype level / ecs_iter_destroy! / clone / drop / hot-slot recycling / drain-refill) on two worlds (7 archetypes incl. ZST, heap, over-aligned, 16 columns; 2 archetypes), from boundary-biased initial capacities; after every step every lookup path x key kind is probed for live and stale handles and the slot-map invariants are walked via hook H1. evaluations = history steps executed over all processes; distinct_nontrivial = distinct abstract storage states (len, capacity, free-list head, slot index array) seen by the invariant walker, largest single process (lower bound of the union)",
    nontrivial_key="storage_states",
    assumptions=COMMON_ASSUME,
    design_ref="DESIGN.md section 4, C01",
))
