"""E3 (macro crate as a library) and E2 (generated client programs, rustc verdicts) checks:
C05, C15, C16, C18."""
import concurrent.futures as cf
import glob
import json
import os
import shutil
import subprocess
import time

import common as C
import corpus

MLIB = os.path.join(C.VERIF, "mlib")
E2BASE = os.path.join(C.VERIF, "e2base")
E2DIR = os.path.join(C.BUILD, "e2")


def _run(cmd, cwd=None, env=None, timeout=1800):
    try:
        p = subprocess.run(cmd, cwd=cwd, env=env or C.ENV_BASE, stdin=subprocess.DEVNULL, stdout=subprocess.PIPE, stderr=subprocess.PIPE, text=True, timeout=timeout)
        return p.returncode, p.stdout, p.stderr
    except subprocess.TimeoutExpired:
        return None, "", "timeout"


def build_mlib(events=False):
    tdir = os.path.join(C.BUILD, "mlib" + ("-events" if events else ""))
    env = dict(C.ENV_BASE, CARGO_TARGET_DIR=tdir)
    cmd = ["cargo", "build", "--offline"] + (["--features", "events"] if events else [])
    t0 = time.time()
    rc, out, err = _run(cmd, cwd=MLIB, env=env)
    C.log(f"[build] mlib{'+events' if events else ''}: {'ok' if rc == 0 else 'FAILED'} in {time.time() - t0:.1f}s")
    return (os.path.join(tdir, "debug", "gecs-mlib") if rc == 0 else None), err


def build_e2base(features=()):
    tdir = os.path.join(C.BUILD, "e2base" + ("-" + "-".join(features) if features else ""))
    env = dict(C.ENV_BASE, CARGO_TARGET_DIR=tdir)
    cmd = ["cargo", "build", "--offline"] + (["--features", ",".join(features)] if features else [])
    t0 = time.time()
    rc, out, err = _run(cmd, cwd=E2BASE, env=env)
    C.log(f"[build] e2base{'+' + '+'.join(features) if features else ''}: {'ok' if rc == 0 else 'FAILED'} in {time.time() - t0:.1f}s")
    if rc != 0:
        return None, err
    deps = os.path.join(tdir, "debug", "deps")
    rlibs = sorted(glob.glob(os.path.join(deps, "libgecs-*.rlib")), key=os.path.getmtime)
    return (deps, rlibs[-1]), ""


def build_e2base_nightly(features=()):
    tdir = os.path.join(C.BUILD, "e2base-nightly" + ("-" + "-".join(features) if features else ""))
    env = dict(C.ENV_BASE, CARGO_TARGET_DIR=tdir)
    t0 = time.time()
    rc, out, err = _run(["cargo", "+nightly", "build", "--offline"] + (["--features", ",".join(features)] if features else []), cwd=E2BASE, env=env)
    C.log(f"[build] e2base (nightly{'+' + '+'.join(features) if features else ''}): {'ok' if rc == 0 else 'FAILED'} in {time.time() - t0:.1f}s")
    if rc != 0:
        return None, err
    deps = os.path.join(tdir, "debug", "deps")
    rlibs = sorted(glob.glob(os.path.join(deps, "libgecs-*.rlib")), key=os.path.getmtime)
    return (deps, rlibs[-1]), ""


def strip_literals(text):
    """Removes string/char literals and comments so that only code tokens are scanned."""
    out, i, n = [], 0, len(text)
    while i < n:
        c = text[i]
        if c == '"':
            i += 1
            while i < n and text[i] != '"':
                i += 2 if text[i] == "\\" else 1
            i += 1
            out.append('""')
        elif text.startswith("//", i):
            while i < n and text[i] != "\n":
                i += 1
        elif text.startswith("/*", i):
            j = text.find("*/", i + 2)
            i = n if j < 0 else j + 2
        else:
            out.append(c)
            i += 1
    return "".join(out)


def run_expansion_scan(mlib, seed, files, cases, features=()):
    """rustc's own macro expansion of generated client programs must contain no `unsafe` token
    (the unsafe_code lint does not look inside proc-macro output, so forbid() alone proves nothing)."""
    import re
    stats, finds, incon = {"expanded_programs": 0, "expanded_bytes": 0, "expanded_query_invocations": 0}, [], []
    base, err = build_e2base_nightly(features)
    if not base:
        incon.append("nightly e2base build failed: " + err[-300:])
        return stats, finds, incon
    outdir = os.path.join(E2DIR, f"bare-{seed}" + "".join("-" + f for f in features))
    shutil.rmtree(outdir, ignore_errors=True)
    rc, out, err = _run([mlib, "bare", f"seed={seed}", f"out={outdir}", f"files={files}", f"cases={cases}"])
    if rc != 0:
        incon.append("bare emit failed: " + err[-300:])
        return stats, finds, incon

    def one(f):
        src = os.path.join(outdir, f"bare_{f}.rs")
        deps, rlib = base
        cmd = ["rustc", "+nightly", "--edition", "2021", "--crate-type", "bin", "-Zunpretty=expanded", "-L", f"dependency={deps}", "--extern", f"gecs={rlib}", "--cap-lints", "allow", src]
        rc, so, se = _run(cmd, timeout=900)
        return src, rc, so, se

    with cf.ThreadPoolExecutor(max_workers=C.NCPU) as ex:
        for src, rc, so, se in ex.map(one, range(files)):
            if rc != 0 or not so:
                incon.append(f"expansion of {src} failed: {se[-300:]}")
                continue
            code = strip_literals(so)
            stats["expanded_programs"] += 1
            stats["expanded_bytes"] += len(code)
            stats["expanded_query_invocations"] += code.count("type MatchedArchetype")
            # rustc's own #[derive(Clone, Copy)] expands (on nightly) to an automatically derived
            # `unsafe impl ::core::clone::TrivialClone`; that is the compiler's token, not gecs's
            code = re.sub(r"unsafe impl(<[^>]*>)? ::core::clone::TrivialClone", "impl TrivialClone", code)
            hits = [m.start() for m in re.finditer(r"\bunsafe\b", code)]
            if hits:
                ctx = code[max(0, hits[0] - 200):hits[0] + 120].replace("\n", " ")
                finds.append(Finding(["C18"], "macro expansion contains `unsafe`", f"{src}: {len(hits)} occurrence(s), first: ...{ctx}...", {"kind": "expansion-scan", "src": src}))
            if "MatchedArchetype" not in code:
                incon.append(f"expansion of {src} contains no query expansion (scan would be vacuous)")
    return stats, finds, incon


def rustc(src, base, out=None, cfgs=(), metadata=True, timeout=600):
    deps, rlib = base
    cmd = ["rustc", "--edition", "2021", "--crate-type", "bin", "--error-format=json", "-L", f"dependency={deps}", "--extern", f"gecs={rlib}", "--cap-lints", "warn"]
    for c in cfgs:
        cmd += ["--cfg", c]
    if metadata:
        cmd += ["--emit=metadata", "-o", out or (src[:-3] + ".rmeta")]
    else:
        cmd += ["-C", "opt-level=0", "-C", "debuginfo=0", "-o", out]
    cmd.append(src)
    rc, so, se = _run(cmd, timeout=timeout)
    codes, msgs = [], []
    for line in se.splitlines():
        if line.startswith("{"):
            try:
                d = json.loads(line)
            except Exception:
                continue
            if d.get("level") == "error":
                if d.get("code"):
                    codes.append(d["code"]["code"])
                msgs.append(d.get("message", ""))
    return rc, codes, msgs, se


class Finding:
    def __init__(self, tags, what, detail, replay):
        self.tags, self.what, self.detail, self.replay = tags, what, detail, replay


def save_replay(pid, name, doc, copy_file=None):
    os.makedirs(os.path.join(C.VERIF, "replays"), exist_ok=True)
    path = os.path.join(C.VERIF, "replays", f"{pid}-{name}.json")
    if copy_file:
        dst = os.path.join(C.VERIF, "replays", f"{pid}-{name}.rs")
        shutil.copy(copy_file, dst)
        doc["program"] = dst
    with open(path, "w") as f:
        json.dump(doc, f, indent=1)
    return path


def run_e3(mlib, seed, nshards, ops):
    """Returns (summaries, findings, inconclusive_reasons)."""
    def one(s):
        rc, out, err = _run([mlib, "e3", f"seed={seed}", f"shard={s}", f"ops={ops}"], timeout=3000)
        return s, rc, out, err
    sums, finds, incon = [], [], []
    with cf.ThreadPoolExecutor(max_workers=C.NCPU) as ex:
        for s, rc, out, err in ex.map(one, range(nshards)):
            d = None
            for line in out.splitlines():
                if line.startswith("{"):
                    try:
                        d = json.loads(line)
                    except Exception:
                        pass
            if d is None:
                incon.append(f"E3 shard {s}: exit {rc}: {err[-300:]}")
                continue
            sums.append(d)
            if d.get("violation"):
                v = d["violation"]
                finds.append(Finding(v["tags"], "E3 " + v["oracle"], v["detail"], {"kind": "e3", "argv": [mlib, "e3", f"seed={seed}", f"shard={s}", f"ops={ops}"], "violation": v}))
    return sums, finds, incon


def classify_line(line):
    parts = line.split()
    if len(parts) >= 3 and parts[2].startswith("Q"):
        return "query"
    return "ids"


def run_positive(mlib, base, seed, files, cases, feature_bits=None, tag="pos"):
    """Emits, compiles and runs positive programs. Returns (stats, findings, inconclusive)."""
    outdir = os.path.join(E2DIR, f"{tag}-{seed}" + (f"-f{feature_bits}" if feature_bits is not None else ""))
    shutil.rmtree(outdir, ignore_errors=True)
    argv = [mlib, "emit", f"seed={seed}", f"out={outdir}", f"files={files}", f"cases={cases}", "negs=0"]
    if feature_bits is not None:
        argv.append(f"features={feature_bits}")
    rc, out, err = _run(argv)
    stats = {"programs": 0, "lines_compared": 0, "query_lines": 0, "id_lines": 0, "cases": 0}
    finds, incon = [], []
    if rc != 0:
        incon.append(f"emit failed: {err[-300:]}")
        return stats, finds, incon
    cfgs = [f'feature="f{i}"' for i in range(3) if feature_bits is not None and feature_bits & (1 << i)]

    def one(f):
        src = os.path.join(outdir, f"pos_{f}.rs")
        exe = os.path.join(outdir, f"pos_{f}")
        rc, codes, msgs, se = rustc(src, base, out=exe, cfgs=cfgs, metadata=False)
        if rc is None:
            return f, "timeout", None, None
        if rc != 0:
            return f, "compile", (codes, msgs), None
        rc2, out, err = _run([exe], timeout=300)
        if rc2 != 0:
            return f, "run", (rc2, err[-500:]), None
        exp = open(os.path.join(outdir, f"pos_{f}.expected")).read().splitlines()
        return f, "ok", sorted(out.splitlines()), sorted(exp)

    with cf.ThreadPoolExecutor(max_workers=C.NCPU) as ex:
        for f, status, a, b in ex.map(one, range(files)):
            src = os.path.join(outdir, f"pos_{f}.rs")
            rdoc = {"kind": "e2-positive", "emit_argv": argv, "file": f, "cfgs": cfgs}
            if status == "timeout":
                incon.append(f"rustc timed out on {src}")
            elif status == "compile":
                codes, msgs = a
                unsafe = any("unsafe" in m for m in msgs)
                tags = ["C05", "C15", "C16"] + (["C18"] if unsafe else [])
                finds.append(Finding(tags, "E2 well-formed generated program rejected by rustc", f"{src}: {codes} {msgs[:3]}", dict(rdoc, src=src)))
            elif status == "run":
                finds.append(Finding(["C05", "C15", "C16", "ANY"], "E2 generated program crashed", f"{src}: {a}", dict(rdoc, src=src)))
            else:
                stats["programs"] += 1
                stats["cases"] += cases
                stats["lines_compared"] += len(b)
                stats["query_lines"] += sum(1 for l in b if classify_line(l) == "query")
                stats["id_lines"] += sum(1 for l in b if classify_line(l) == "ids")
                if a != b:
                    sa, sb = set(a), set(b)
                    extra = sorted(sa - sb)[:5]
                    missing = sorted(sb - sa)[:5]
                    kinds = {classify_line(l) for l in extra + missing} or {"query"}
                    tags = (["C05"] if "query" in kinds else []) + (["C15"] if "ids" in kinds else []) + ["C16"]
                    finds.append(Finding(tags, "E2 program output differs from the reference", f"{src}: unexpected {extra} missing {missing}", dict(rdoc, src=src)))
    return stats, finds, incon


def run_negatives(mlib, base, seed, n):
    outdir = os.path.join(E2DIR, f"neg-{seed}")
    shutil.rmtree(outdir, ignore_errors=True)
    argv = [mlib, "emit", f"seed={seed}", f"out={outdir}", "files=0", "cases=0", f"negs={n}"]
    rc, out, err = _run(argv)
    stats, finds, incon = {}, [], []
    if rc != 0:
        incon.append(f"emit failed: {err[-300:]}")
        return stats, finds, incon
    files = sorted(glob.glob(os.path.join(outdir, "neg_*.rs")))

    def one(src):
        cls, exp = open(src[:-3] + ".expect").read().splitlines()[:2]
        rc, codes, msgs, se = rustc(src, base)
        return src, cls, exp, rc, codes, msgs

    tagmap = {"duplicate-id": ["C15"], "id-past-255": ["C15"], "no-match": ["C05"], "ambiguous-oneof": ["C05"], "cfg-on-oneof": ["C16", "C05"], "twin": ["C05", "C15", "C16"]}
    with cf.ThreadPoolExecutor(max_workers=C.NCPU) as ex:
        for src, cls, exp, rc, codes, msgs in ex.map(one, files):
            stats[f"reject_class.{cls}"] = stats.get(f"reject_class.{cls}", 0) + 1
            rdoc = {"kind": "e2-negative", "src": src, "class": cls, "expect": exp}
            if rc is None:
                incon.append(f"rustc timed out on {src}")
            elif exp == "OK":
                if rc != 0:
                    finds.append(Finding(tagmap[cls], "E2 twin of a reject-class program does not compile", f"{src}: {codes} {msgs[:2]}", rdoc))
            else:
                want = exp[4:]
                if rc == 0:
                    finds.append(Finding(tagmap[cls], f"E2 reject-class program ({cls}) compiles", src, rdoc))
                elif want and not any(want in m for m in msgs):
                    # rejected, but for another reason than the documented diagnostic
                    finds.append(Finding(tagmap[cls], f"E2 reject-class program ({cls}) fails with an unrelated diagnostic", f"{src}: wanted '{want}', got {msgs[:3]}", rdoc))
    return stats, finds, incon


def run_corpus(base, full, extra_cfgs=()):
    items = corpus.corpus(full)
    outdir = os.path.join(E2DIR, "corpus")
    shutil.rmtree(outdir, ignore_errors=True)
    os.makedirs(outdir)
    for i, it in enumerate(items):
        it["path"] = os.path.join(outdir, f"c{i:04d}.rs")
        open(it["path"], "w").write(it["src"])

    def one(it):
        rc, codes, msgs, se = rustc(it["path"], base)
        return it, rc, codes, msgs

    stats = {"corpus.negatives": 0, "corpus.twins": 0}
    finds, incon = [], []
    codes_seen = {}
    with cf.ThreadPoolExecutor(max_workers=C.NCPU) as ex:
        for it, rc, codes, msgs in ex.map(one, items):
            rdoc = {"kind": "corpus", "name": it["name"], "src": it["path"]}
            if rc is None:
                incon.append(f"rustc timed out on {it['name']}")
                continue
            if it["expect"] == "ok":
                stats["corpus.twins"] += 1
                if rc != 0:
                    finds.append(Finding(["C18"], "sound twin does not compile", f"{it['name']}: {codes} {msgs[:2]}", rdoc))
                continue
            stats["corpus.negatives"] += 1
            if rc == 0:
                finds.append(Finding(["C18"], "unsound program compiles", it["name"], rdoc))
                continue
            for c in codes:
                codes_seen[c] = codes_seen.get(c, 0) + 1
            if isinstance(it["expect"], str):
                good = any(it["expect"] in m for m in msgs)
            else:
                good = any(c in it["expect"] for c in codes)
            if not good:
                # rejected for an unrelated reason: the negative proves nothing -> harness problem
                incon.append(f"corpus program {it['name']} fails with unrelated diagnostics {codes} {msgs[:2]}")
    stats["corpus.error_codes"] = codes_seen
    return stats, finds, incon


PROP_TEXT = {
    "C05": "E3: seeded generator of world declarations (1-10 archetypes over a 10-name component pool with prefix relations, shuffled columns, sparse explicit ids, cfg decorations) x query parameter lists (0-4 parameters of every kind incl. OneOf of arity 2-3, typed/wild/dynamic entity and direct-entity parameters) x 5 macros, expanded in-process by the real generator code; a token walker reads per matched archetype the MatchedArchetype alias, the closure parameter types and the column each argument is fed from, compared with an independent reference (archetype matches iff all named components present, exactly one member of each OneOf, named archetype equal); reject iff empty match set or ambiguous OneOf. E2: a sample of programs from the same generator is compiled by rustc and run; every closure invocation logs MatchedArchetype::ARCHETYPE_ID, the entity and the values bound (values encode archetype, component, entity), find is run on every entity with all four key kinds; reject-class programs and their twins are compiled for the verdict and diagnostic. evaluations = E3 cases + E2 programs; distinct_nontrivial = distinct (world, query) pairs expanded in the largest single E3 process",
    "C15": "E3: generated declarations (1-10 archetypes, 1-5 components, explicit ids on random subsets in ascending / descending / successor-colliding / near-255 layouts, cfg-disabled items interleaved) through DataWorld::new, compared with the enum-discriminant fold (explicit, else previous+1, else 0; disabled items skipped; duplicate or past-255 => reject with the documented message). E2: worlds are compiled and print A::ARCHETYPE_ID, COMPONENT_ID (both spellings), ecs_component_id! inside queries, handle.archetype_id(), SelectArchetype::try_from(id) for declared and undeclared ids, NUM_ARCHETYPES; reject-class declarations are compiled for the verdict. distinct_nontrivial = distinct declarations in the largest single E3 process",
    "C16": "twin comparison: a decorated program P(tau) must behave as P' (false items deleted, true items unannotated). E3: declarations and queries decorated with up to ~6 distinct predicates (5 syntactically distinct always-true and 5 always-false forms, duplicates, two attributes on one item) are fed to the macro code with the truth values in the order the macro itself collects predicates; ids and match sets must equal the twin's, cfg attributes must be replicated on closure parameters and call arguments. E2: the same programs are compiled by rustc (the cfg-probing macro chain runs for real) and their output compared with the twin's expected output; feature = \"fN\" predicates are toggled over all 8 combinations of three --cfg flags; OneOf with a cfg must stay rejected. distinct_nontrivial = distinct truth assignments (>= 2 predicates) in the largest single E3 process",
    "C18": "(1) every token stream produced by E3 (world and query expansions) is scanned for the `unsafe` keyword; (2) every E2 program and the E1 harness are #![forbid(unsafe_code)] and must compile; (3) corpus of minimal unsound programs, each with a sound twin differing by one edit: keep {view, Borrow, Ref/RefMut guard, iterator, iterator item, get_slice(_mut), borrow_slice(_mut), entities(), all-slices, component ref, archetype ref} across {World::create, World::destroy, create_within_capacity, Archetype::create, Archetype::destroy, world = world.clone(), ecs_iter_destroy!}; closure argument escaping each macro; two mutable / mutable+shared accesses to one component; &mut on each of the 6 entity parameter kinds x 5 macros; closure touching the iterated archetype; &World into thread::scope / spawn; Sync/Send assertions on worlds and archetypes (Rc component); borrows outliving the world; handles Copy+Send+Sync. The oracle is rustc's verdict and error class. distinct_nontrivial = negatives in the corpus (each distinct)",
}
