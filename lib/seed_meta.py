#!/usr/bin/env python3
"""Writes seeded/<id>/meta.json and seeded/README.md from the table below and the recorded runs."""
import json
import os

V = os.path.dirname(os.path.dirname(os.path.abspath(__file__)))
T = {
 "C01-m1": ("C01", "storage.rs force_destroy: the released slot's next generation is read from slots[dense_index] instead of slots[slot_index]", "slot and dense index out of step (front/middle removal, freed low slot reused at the dense end), then destroy + reuse again: a create returns a handle bit-identical to a dead entity's, which then resolves again"),
 "C01-m2": ("C01", "storage.rs force_destroy: fix-up of the moved last entity's slot skipped when last_dense_index == slot_index (dense vs slot index compared)", "slot/dense out of step, then destroy of an entity owning slot len-1 that is not the last dense element; the survivor's handle then resolves out of bounds / to a newer entity (debug: debug_assert panic on lookup)"),
 "C02-m1": ("C02", "storage.rs StorageCanResolve<EntityDirect>::resolve_for returns the slot index instead of the dense index", "direct key + a prior non-last destroy (slot order != dense order): reads and writes through EntityDirect/EntityDirectAny land on another entity's row"),
 "C02-m2": ("C02", "iter.rs IterMut::next never advances the entity pointer", "Archetype::iter_mut() with >= 2 entities and a consumer that uses the yielded &Entity: every row is paired with row 0's handle"),
 "C04-m1": ("C04", "storage.rs DataPtr::drop_to returns early for zero-sized T", "a zero-sized component with Drop alive when a world (or clone) is dropped: leaked"),
 "C04-m2": ("C04", "macros generate/world.rs: World::destroy(EntityAny) arm uses .map(mem::forget) instead of dropping the removed tuple", "world-level destroy with a live EntityAny key and a component with drop glue: components never dropped (other key kinds fine)"),
 "C06-m1": ("C06", "iter.rs IterMut::next advances the entity pointer before building the item", "Archetype::iter_mut(): item k carries entities[k+1]; the last item reads entities[len] (stale / uninitialised / out of bounds when full)"),
 "C06-m2": ("C06", "macros generate/query.rs generate_query_iter: EcsStep::Break arm `break` instead of `return`", "Break returned while iterating a non-last matched archetype of ecs_iter!/ecs_iter_borrow! with a later non-empty archetype"),
 "C07-m1": ("C07", "macros generate/query.rs generate_query_iter_destroy: archetype version read once before the loop (reverts fix 3e568bb)", "EntityDirect closure parameter + a destroy followed by another visit in the same archetype"),
 "C07-m2": ("C07", "storage.rs force_destroy: slot fix-up wrapped in `if last_slot_index != dense_index_usize`", "recycled slot history (create 3, destroy first, create one) then Continue, Continue, ContinueDestroy: a visited survivor loses its handle"),
 "C09-m1": ("C09", "storage.rs StorageCanResolve<Entity>::resolve_direct builds the direct handle from the slot index", "to_direct after a swap-remove of a non-last element (slot != dense): the fresh direct handle designates another entity or is rejected"),
 "C09-m2": ("C09", "macros generate/world.rs ArchetypeCanResolve<EntityDirectAny>::resolve_destroy uses from_any_unchecked instead of try_from", "an EntityDirectAny of archetype B passed to archetype A's archetype-level destroy with coinciding versions: destroys A's entity at that index (debug: debug_assert panic)"),
 "C03-m1": ("C03", "storage.rs resolve_entity: free-bit check dropped (generation compare only)", "forged/foreign handle pointing at a free slot with that slot's current generation, non-empty archetype: accepted in release (index ~2^31), debug_assert panic in debug"),
 "C03-m2": ("C03", "storage.rs resolve_direct: bound check `>` instead of `>=`", "cross-world direct handle with the current archetype version and dense index == len, build without debug assertions: reads the cell past the live prefix"),
 "C10-m1": ("C10", "storage.rs Clone builds the result storage with len set before cloning components into it", "k-th Clone::clone panics: the half-filled clone is dropped and drop_to(len) drops uninitialised cells"),
 "C10-m2": ("C10", "storage.rs DataPtr::drop_to: drop guard resumes at the panicking element", "a component Drop panics during world drop: that element is dropped twice"),
 "C11-m1": ("C11", "storage.rs Clone reads columns through RefCell::as_ptr without borrowing", "clone (archetype or world) while any column is mutably borrowed: granted instead of panicking"),
 "C11-m2": ("C11", "macros generate/query.rs find_bind_borrow: shared component parameter bound through component_mut", "ecs_find_borrow!(|x: &C|) nested with any other shared access to the same column: spurious 'already borrowed' panic"),
 "C12-m1": ("C12", "storage.rs with_capacity: `capacity >= MAX_DATA_CAPACITY` panics", "initial capacity of exactly 2^24"),
 "C12-m2": ("C12", "storage.rs grow: refuses when the doubled capacity exceeds 2^24 instead of clamping", "create on a full archetype with capacity >= 2^23 (e.g. growing from 0 towards 2^24)"),
 "C13-m1": ("C13", "storage.rs Clone copies only the first len slots", "source with holes (live entity in a slot >= len) or a clone below capacity that later creates: free list / generations garbage in the clone"),
 "C13-m2": ("C13", "macros generate/world.rs archetype Clone returns a fresh with_capacity storage when the archetype is empty", "archetype empty at clone time but previously used: generations, free-list order, version and pending events restart in the clone; reissued handles"),
 "C05-m1": ("C05", "macros generate/query.rs bind_query_params: early-out on `components.len() < num_columns_needed` that counts direct-entity parameters as columns", "a query with an EntityDirect*/EntityDirectAny parameter whose component parameters cover all components of some archetype: that archetype is dropped from the match set in all five macros"),
 "C05-m2": ("C05", "macros data.rs contains_component uses binary_search on the (unsorted) component list", "an archetype declaring its components in non-ascending name order: present components reported absent"),
 "C08-m1": ("C08", "storage.rs force_destroy: next slot generation read from slots[dense_index] (same site as C01-m1)", "create x, y; destroy x; create z; destroy z; create w => w == z"),
 "C08-m2": ("C08", "version.rs: checked_add(1).expect(..) -> saturating_add(1) in both counters (default configuration)", "one position recycled 2^32-1 times: no panic, the handle with generation u32::MAX is reissued for ever"),
 "C14-m1": ("C14", "entity.rs EntityAny::from_raw rejects slot index >= MAX_DATA_INDEX", "a key with position exactly 2^24-1"),
 "C14-m2": ("C14", "macros generate/world.rs TryFrom<EntityAny> for SelectEntity keyed by declaration index instead of ARCHETYPE_ID", "a world with explicit non-positional archetype ids and the EntityAny -> SelectEntity path (also World::contains/destroy with EntityAny)"),
 "C15-m1": ("C15", "macros data.rs advance_attribute_id: implicit id continues from the highest id so far", "descending explicit ids followed by an implicit item"),
 "C15-m2": ("C15", "macros data.rs DataWorld::new: cfg check of components moved after the id advance", "a cfg-disabled component followed by an implicit component in the same archetype"),
 "C16-m1": ("C16", "macros generate/cfg.rs generate_cfg_checks_outer: the generated macro chain prepends its boolean", "an ecs_world! with >= 2 distinct predicates whose truth values in first-appearance order are not a palindrome"),
 "C16-m2": ("C16", "macros generate/query.rs is_cfg_enabled: last attribute wins (forgotten &=)", "a query parameter with two cfg attributes, false then true, of a constraining kind"),
 "C17-m1": ("C17", "storage.rs force_destroy (events): the destroyed log records the moved last entity instead of the target", "destroy of a non-last dense element with >= 2 entities"),
 "C17-m2": ("C17", "macros generate/world.rs EcsEventIterator::next: cursor only advances after a yielded final element", "an archetype with an empty log declared before one with a non-empty log"),
 "C18-m1": ("C18", "storage.rs StorageN::iter: item lifetime detached from &mut self", "client calling world.arch.data.iter() (public doc(hidden) field) and keeping an item across create/destroy"),
 "C18-m2": ("C18", "storage.rs `unsafe impl<T> Send for DataPtr<T>` without T: Send", "a world with an Rc component moved to another thread"),
 "C19-m1": ("C19", "version.rs wrapping_version arm: `get() + 1` instead of wrapping_add(1)", "wrapping_version + overflow checks on (debug) + a counter at u32::MAX advanced once more: panics instead of wrapping"),
 "C19-m2": ("C19", "storage.rs resolve_direct: real bound check replaced by debug_checked_assume!", "release build + a direct handle from another storage instance with equal version and index >= len"),
 "C13-r2m1": ("C13", "storage.rs Clone: version restarted (ArchetypeVersion::start())", "a removal before the clone + a direct handle issued before cloning used on the clone"),
 "C13-r2m2": ("C09", "storage.rs force_destroy: archetype version only bumped when last_dense_index > 0", "removal taking an archetype from len 1 to 0, a direct handle issued before it, then a creation: the stale handle designates the new entity"),
 "C13-r2m3": ("C07", "macros generate/query.rs ecs_iter_destroy!: `if len == 0 { return; }` ends the whole query", "a query matching >= 2 archetypes where an earlier one is empty and a later one populated"),
 "C13-r2m4": ("C13", "storage.rs Clone (events): destroyed: self.created.clone()", "events feature + pending created != pending destroyed at clone time"),
 "C03-r2m1": ("C03", "storage.rs resolve_entity: capacity bound check `>` instead of `>=`", "forged handle with position == capacity on a non-empty archetype, release build: reads one slot past the sparse array"),
 "C03-r2m2": ("C03", "macros generate/world.rs ArchetypeCanResolve<EntityAny>::resolve_view uses from_any_unchecked", "archetype-level view() with an EntityAny of another archetype / undeclared id whose position and generation coincide with a live entity (release); debug_assert panic in debug"),
 "C03-r2m3": ("C03", "storage.rs to_direct(direct key) compares the archetype version only", "foreign direct handle with matching version and index >= len (e.g. against an empty archetype)"),
 "C05-r2m1": ("C05", "macros generate/query.rs bind_query_params: resolved OneOf parameters appended after the others", "a OneOf followed by another parameter: names and columns paired in different orders"),
 "C05-r2m2": ("C15", "macros data.rs DataWorld::new: last_component_id not reset per archetype", "a non-first archetype with an implicitly numbered component before any explicit id"),
 "C05-r2m3": ("C16", "macros generate/query.rs bind_query_params: cfg-disabled EntityDirect<A> parameter still restricts the match", "#[cfg(false)] d: &EntityDirect<A> where another archetype satisfies the remaining parameters"),
 "C05-r2m4": ("C05", "macros generate/query.rs generate_query_iter_destroy: `break` on the first non-matching archetype", "ecs_iter_destroy! on a world declared matching, non-matching, matching"),
 "C04-r2m1": ("C04", "storage.rs DataPtr::swap_remove assigns over the moved-out cell (drops it)", "destroy of an entity not in the last dense position with a Drop component: dropped inside destroy and again by the caller"),
 "C04-r2m2": ("C04", "storage.rs Clone takes source column slices up to capacity", "clone while len < capacity: Clone::clone runs on dead/uninitialised cells"),
 "C04-r2m3": ("C04", "macros generate/query.rs ecs_iter_destroy! BreakDestroy arm forgets the removed components", "a closure returning BreakDestroy on an entity with Drop components"),
 "C01-r2m3": ("C07", "macros generate/query.rs ecs_iter_destroy! BreakDestroy arm returns without destroying", "any closure returning BreakDestroy"),
 "R3A-m1": ("C06", "macros generate/query.rs generate_query_iter: `if len == 0 { return; }` ends the whole query", "ecs_iter!/ecs_iter_borrow! matching >= 2 archetypes with an empty one declared before a populated one"),
 "R3A-m2": ("C02", "storage.rs DataPtr::grow builds old_layout from old_capacity as a byte size", "any growth of an allocated column; natively only over-aligned components lose data (realloc fallback copies too little)"),
 "R3A-m3": ("C02", "storage.rs Clone copies columns with ptr::read (shallow)", "heap-owning component + clone + in-place write in one world read in the other; double free at drop"),
 "R3A-m4": ("C06", "storage.rs borrow_slice_N slices to capacity", "direct borrow_slice::<C>() while len < capacity"),
 "R3B-m1": ("C11", "macros generate/query.rs ecs_iter_borrow! takes the slice guards once per archetype before the loop", "a matched archetype that is empty while a conflicting guard on the same column is alive (borrow taken although no entity is visited)"),
 "R3B-m2": ("C11", "storage.rs Clone takes each column with borrow_mut()", "clone while a shared borrow of one of its columns is alive: spurious panic"),
 "R3B-m3": ("C17", "storage.rs created-event push moved from force_create into push", "successful create_within_capacity: not logged"),
 "R3B-m4": ("C17", "storage.rs force_destroy: destroyed-event push before the (panicking) version computation", "events + default versions + a destroy hitting the 2^32 boundary: the surviving entity is logged as destroyed"),
 "R3C-m1": ("C08", "storage.rs grow: new free list starts at (slot of last dense entity)+1 instead of len", "fill, destroy a non-last entity, refill, then grow: still-live slots are reset and handed out again"),
 "R3C-m2": ("C12", "storage.rs with_capacity clamps to 2^24 instead of panicking", "with_capacity(n) for n > 2^24"),
 "R3C-m3": ("C10", "storage.rs force_destroy: archetype version advanced after the swap-remove again (slot generation still precomputed)", "the removal that overflows the archetype version: panic leaves len one too large"),
 "R3C-m4": ("C12", "slot.rs populate_free_list: a region of exactly one slot is never written", "with_capacity(1) (or growth from 2^24-1): the create that should use the slot crashes / UB"),
 "R3D-m1": ("C14", "entity.rs EntityDirectAny::archetype_id() masks with 0x7F (precedence slip)", "a dynamically typed direct handle of an archetype with id >= 128"),
 "R3D-m2": ("C14", "entity.rs PartialEq for EntityDirect<A> compares the dense index only", "two typed direct handles with equal index and different version"),
 "R3D-m3": ("C18", "entity.rs From<&Entity<A>> for &EntityAny with an unbounded output lifetime", "client converting &Entity<A> with .into() and keeping the result beyond its borrow"),
 "R3D-m4": ("C18", "entity.rs EntityDirect marker PhantomData<A> instead of PhantomData<fn() -> A>", "Sync/Send assertion on EntityDirect<A> (a sound program is now rejected)"),
 "R3E-m2": ("C10", "world-level dynamic destroy drops the row in place, then destroys and forgets", "a component Drop panic (or the overflow panic) inside World::destroy(EntityAny/EntityDirectAny): entity stays registered with dropped components"),
 "R3E-m3": ("C19", "version.rs wrapping_version arms saturate at u32::MAX", "wrapping_version + crossing the 2^32 boundary: handles reissued, stale handles resolve"),
 "R3E-m4": ("C19", "entity.rs from_any: panic replaced by debug_assert!", "release build: Entity::<B>::from_any(handle of A) no longer panics"),
 "R4B-m1": ("C12", "macros generate/world.rs with_capacity: every archetype gets the first archetype's capacity", ">= 2 archetypes and a non-first archetype requesting more capacity than the first"),
 "R4B-m2": ("C15", "macros generate/world.rs SelectArchetype::archetype_id() returns the declaration position (`self as ArchetypeId`)", "an explicit archetype id that differs from the archetype's position"),
 "R4B-m3": ("C09", "macros generate/world.rs World::to_direct(EntityDirectAny) returns Some(entity) for any declared id", "a stale or forged EntityDirectAny through the world-level to_direct"),
 "R4B-m4": ("C17", "macros generate/world.rs world-level iter_destroyed iterates the created logs", "events + created and destroyed sets since the last clear differ"),
 "R4D-m1": ("C09", "macros generate/world.rs Archetype::to_direct(EntityDirectAny) only checks the id byte", "archetype-level to_direct with a stale EntityDirectAny"),
 "R4D-m2": ("C07", "iter.rs From<EcsStep> for EcsStepDestroy always returns Continue", "an ecs_iter_destroy! closure returning EcsStep::Break (not EcsStepDestroy)"),
 "R4D-m3": ("C09", "storage.rs BorrowN::index() returns the slot index", "borrow(k).index() or an EntityDirect parameter of ecs_find_borrow! after churn (slot != dense)"),
 "R4D-m4": ("C09", "macros generate/world.rs World::destroy(EntityDirectAny) returns Some(()) unconditionally", "World::destroy with a stale EntityDirectAny: reports success"),
 "R4A-m1": ("C06", "iter.rs/storage.rs: Iter/IterMut stop when the first column's pointer reaches an end pointer (two sites)", "an archetype whose first component is zero-sized, iterated with Archetype::iter()/iter_mut(): yields nothing"),
 "R4A-m2": ("C13", "storage.rs Clone rebuilt on with_capacity(..) with len 0 until copied; free_head never refreshed (two sites)", "clone a world that is not full, then create in the clone"),
 "R4A-m3": ("C12", "storage.rs grow policy `0 => 4, n => n + n/2` (1 + 1/2 == 1) with populate_free_list on an empty region (two sites)", "initial capacity exactly 1 and a second create"),
 "R4A-m4": ("C08", "storage.rs force_destroy does not advance the slot generation when len == 1 (relying on the len == 0 early-out)", "drain an archetype to empty, then create again: the new handle equals the last destroyed one"),
 "R4C-m1": ("C04", "storage.rs Drop fast path uses needs_drop .all() over the columns instead of .any()", "an archetype mixing a column that needs drop with one that does not: nothing is dropped with the world"),
 "R4C-m2": ("C04", "storage.rs Clone skips zero-sized columns", "a zero-sized column with observable Clone/Drop and a clone"),
 "R4C-m3": ("C17", "macros generate/world.rs EcsEventIterator compares `which` with ARCHETYPE_ID instead of the position", "events + explicit non-positional archetype ids"),
 "R4C-m4": ("C19", "storage.rs `seq!(N in 17..32` (exclusive): no Storage32", "32_components + an archetype with exactly 32 components: does not compile"),
 "R4C-m5": ("C17", "storage.rs clear_events returns early if `created` is empty", "events: clear, then destroys without creates in that archetype, then clear again"),
 "OWN-C18-unsafe": ("C18", "macros generate/query.rs ecs_iter_destroy! ContinueDestroy arm reads the handle with `unsafe { *slices.entity.get_unchecked(idx) }` (written here, after two sub-agents reported that no compile-verdict demonstration exists: forbid(unsafe_code) does not see proc-macro output; demo.sh greps rustc's expansion)", "any use of ecs_iter_destroy!: the expansion contains the unsafe keyword although user crates that forbid unsafe code still compile"),
 "R5A-m1": ("C01", "storage.rs Clone: `if self.len == 0 { return Self::with_capacity(self.capacity) }` fast path", "an archetype that was used but is empty when the world is cloned, then a create in the clone: generations and version restart, stale handles resolve"),
 "R5A-m3": ("C12", "storage.rs Clone: free_head rewound to slot 0 when the source is drained (links copied verbatim)", "fill, drain in an order whose last-released slot is not 0, clone, refill the clone: free positions leaked, end marker popped in unchecked code"),
 "R5B-m2": ("C16", "macros generate/query.rs: is_cfg_enabled precomputation factored into a helper that generate_query_iter_destroy forgets to call", "ecs_iter_destroy! with a cfg-false parameter naming a component / Entity<A> only some matching archetypes have"),
 "R5B-m3": ("C05", "macros generate/query.rs bind_one_of: ambiguity check over windows(2) of the OneOf arguments (adjacent pairs only)", "OneOf of arity >= 3 with an archetype holding two non-adjacent members: compiles and binds the first (compile-verdict demo: the unchanged tree rejects the program)"),
 "R5C-m1": ("C15", "macros data.rs advance_attribute_id: explicit id 0 treated as no attribute", "#[archetype_id(0)] / #[component_id(0)] on an item that is not the first enabled one of its scope"),
 "R5C-m2": ("C15", "macros parse/world.rs: early duplicate check over explicit archetype ids before cfg evaluation", "two archetypes with the same explicit id of which at least one is cfg-disabled: a valid world is rejected"),
 "R5C-m3": ("C14", "entity.rs EntityDirect<A>::from_any delegates to from_any_unchecked (debug_assert only)", "release build, EntityDirect::from_any on another archetype's EntityDirectAny: returns a mistyped handle instead of panicking"),
 "R5C-m4": ("C14", "entity.rs EntityAny: manual PartialEq through a packed() helper that shifts the key by 8 instead of 32 (shared with Hash)", "generation >= 256 together with low archetype-id bits: distinct handles compare equal, HashSet collapses"),
 "R5D-m1": ("C10", "storage.rs grow: early `capacity >= MAX` guard removed, failure reported after the body ran", "an archetype at exactly 2^24 entities and one more create: free-list end marker written over a live slot before the documented panic"),
 "R5D-m3": ("C04", "storage.rs Drop: columns dropped through try_borrow_mut() (skipped when flagged as borrowed)", "a runtime-borrow guard leaked with mem::forget, then the world dropped: that column's components never dropped"),
 "R5E-m1": ("C13", "slot.rs hand-written Clone for Slot resets the generation of free slots", "a slot released at least once and free at clone time, reused in the clone: handle differs from the original's, stale handle resolves in the clone"),
 "R5F-m1": ("C08", "version.rs: overflow panic arms gated on debug_assertions (wrapping otherwise)", "default features, build without debug assertions, a position recycled 2^32-1 times: old handle reissued"),
 "R5F-m2": ("C15", "macros data.rs advance_attribute_id: the already-assigned check only applies to explicit ids", "explicit ids 1, 0 followed by an implicit item (gets 1 again): two archetypes share an id, equal handles across archetypes (written for C08; compile-verdict)"),
 "R5G-m2": ("C09", "version.rs ArchetypeVersion::next (wrapping_version arm) saturates", "wrapping_version and the archetype version at u32::MAX: removals stop invalidating direct handles"),
 "R5G-m3": ("C07", "macros generate/query.rs generate_query_iter_destroy: EcsStepDestroy::Break arm `break` instead of `return`", "Break in a non-last matched archetype of ecs_iter_destroy!: later archetypes still visited"),
 "R5G-m4": ("C11", "macros generate/query.rs bind_query_params: the component parameter synthesised for a OneOf is always is_mut", "shared &OneOf<..> in ecs_find_borrow!/ecs_iter_borrow! nested in another shared borrow of the same column: spurious 'already borrowed'"),
 "R5G-m5": ("C17", "storage.rs (events): destroyed-event push moved from force_destroy into the Entity-keyed resolve_destroy", "events + destroy through EntityDirect / EntityDirectAny: no destroyed event"),
}


def main():
    rows = []
    for sid, (prop, change, needs) in sorted(T.items()):
        d = os.path.join(V, "seeded", sid)
        if not os.path.isdir(d):
            continue
        runs = json.load(open(os.path.join(d, "runs.json"))) if os.path.exists(os.path.join(d, "runs.json")) else []
        meta = {
            "id": sid, "breaks_property": prop, "change": change, "needs_to_manifest": needs,
            "confirmed": "lib/seed_confirm.sh in a scratch worktree: gecs's own suite (64 tests incl. doctests) passes with the change; demo.rs fails with it (debug and/or release) and passes without",
            "checks_run": runs,
        }
        json.dump(meta, open(os.path.join(d, "meta.json"), "w"), indent=1)
        last = {}
        for r in runs:
            last[r["property"]] = r
        verdicts = "; ".join(f"{p}: {'caught' if r['exit'] == 1 else 'inconclusive' if r['exit'] == 2 else 'MISSED'} ({r['first_report'][:110]})" for p, r in last.items())
        rows.append(f"| {sid} | {prop} | {change} | {needs} | {verdicts} |")
    with open(os.path.join(V, "seeded", "README.md"), "w") as f:
        f.write("# Seeded changes\n\nEach directory holds `patch.diff` (apply with `git -C /repo apply`), `demo.rs` (fails with the change, passes without), `meta.json`, `runs.json` (quick checks run against it; the last run per property counts). Changes were written by independent sub-agents that saw only the property text.\n\n")
        f.write("| id | property | change | needs | quick check result |\n|---|---|---|---|---|\n")
        f.write("\n".join(rows) + "\n")
    print(len(rows), "seeded changes")


if __name__ == "__main__":
    main()
