"""Driver plumbing: builds, sharded runs under a watchdog, verdict classification, evidence."""
import concurrent.futures as cf
import json
import os
import re
import signal
import subprocess
import sys
import time

VERIF = os.path.dirname(os.path.dirname(os.path.abspath(__file__)))
BUILD = os.path.join(VERIF, ".build")
HARNESS = os.path.join(VERIF, "harness")
REPO = "/repo"
NCPU = os.cpu_count() or 8
ENV_BASE = dict(os.environ, CARGO_NET_OFFLINE="true", CARGO_TERM_COLOR="never")

HELD, VIOLATED, INCONCLUSIVE = "held", "violated", "inconclusive"


def log(*a):
    print(*a, file=sys.stderr, flush=True)


class Config:
    """One way of building and running the E1 harness."""

    def __init__(self, tool, features=()):
        self.tool = tool  # dbg | rel | asan | miri-dbg | miri-rel | vg
        self.features = tuple(sorted(features))

    @property
    def tag(self):
        return self.tool + ("+" + "+".join(self.features) if self.features else "")

    @property
    def target_dir(self):
        base = "rel" if self.tool == "vg" else self.tool
        return os.path.join(BUILD, base + ("-" + "-".join(self.features) if self.features else ""))

    def feature_args(self):
        return ["--features", ",".join(self.features)] if self.features else []

    def env(self):
        e = dict(ENV_BASE)
        flags = "--cfg gecs_verif"
        if self.tool == "asan":
            flags += " -Zsanitizer=address -Cforce-frame-pointers=yes"
            e["ASAN_OPTIONS"] = "detect_leaks=1:halt_on_error=1:abort_on_error=0:exitcode=98:detect_stack_use_after_return=0"
            e["LSAN_OPTIONS"] = "exitcode=98"
        e["RUSTFLAGS"] = flags
        e["CARGO_TARGET_DIR"] = self.target_dir
        if self.tool.startswith("miri"):
            e["MIRIFLAGS"] = os.environ.get("VERIF_MIRIFLAGS", "")
        return e

    def build_cmd(self):
        t = self.tool
        if t == "dbg":
            return ["cargo", "build", "--offline"] + self.feature_args()
        if t in ("rel", "vg"):
            return ["cargo", "build", "--offline", "--release"] + self.feature_args()
        if t == "asan":
            return ["cargo", "+nightly", "build", "--offline", "--release", "--target", "x86_64-unknown-linux-gnu"] + self.feature_args()
        if t in ("miri-dbg", "miri-rel"):
            return self.miri_prefix() + ["--", "noop"]
        raise ValueError(t)

    def miri_prefix(self):
        c = ["cargo", "+nightly", "miri", "run", "--offline", "-q"]
        if self.tool == "miri-rel":
            c += ["--config", "profile.dev.debug-assertions=false", "--config", "profile.dev.overflow-checks=false"]
        return c + self.feature_args()

    def run_prefix(self):
        t = self.tool
        if t == "dbg":
            return [os.path.join(self.target_dir, "debug", "gecs-vh")]
        if t == "rel":
            return [os.path.join(self.target_dir, "release", "gecs-vh")]
        if t == "vg":
            return ["valgrind", "--error-exitcode=97", "--leak-check=full", "--errors-for-leak-kinds=definite,indirect", "-q",
                    os.path.join(self.target_dir, "release", "gecs-vh")]
        if t == "asan":
            return [os.path.join(self.target_dir, "x86_64-unknown-linux-gnu", "release", "gecs-vh")]
        return self.miri_prefix() + ["--"]


_built = {}


def build(cfg, cwd=HARNESS):
    """Builds (or refreshes) a configuration from /repo's current tree. Returns (ok, log)."""
    key = (cfg.tag, cwd)
    if key in _built:
        return _built[key]
    os.makedirs(BUILD, exist_ok=True)
    t0 = time.time()
    try:
        p = subprocess.run(cfg.build_cmd(), cwd=cwd, env=cfg.env(), stdin=subprocess.DEVNULL, stdout=subprocess.PIPE, stderr=subprocess.STDOUT, text=True, timeout=1800)
        ok = p.returncode == 0
        out = p.stdout
    except subprocess.TimeoutExpired as ex:
        ok, out = False, "build timed out\n" + str(ex.stdout)[-2000:]
    log(f"[build] {cfg.tag}: {'ok' if ok else 'FAILED'} in {time.time() - t0:.1f}s")
    _built[key] = (ok, out)
    return _built[key]


def build_all(cfgs):
    # cargo serialises on the registry/package cache only briefly; separate target dirs build in parallel
    res = {}
    with cf.ThreadPoolExecutor(max_workers=min(len(cfgs), 6) or 1) as ex:
        futs = {ex.submit(build, c): c for c in cfgs}
        for f in cf.as_completed(futs):
            res[futs[f].tag] = f.result()
    return res


SIGNALS = {signal.SIGSEGV: "SIGSEGV", signal.SIGABRT: "SIGABRT", signal.SIGILL: "SIGILL", signal.SIGBUS: "SIGBUS", signal.SIGFPE: "SIGFPE"}


class JobResult:
    def __init__(self, job):
        self.job = job
        self.verdict = INCONCLUSIVE
        self.reason = ""
        self.summary = None  # parsed JSON summary of the harness
        self.tags = []
        self.wall = 0.0
        self.stderr_tail = ""
        self.stdout_tail = ""


class Job:
    def __init__(self, cfg, argv, timeout=1800, env_extra=None, label=None, variant=""):
        self.cfg = cfg
        self.variant = variant  # e.g. "tree-borrows": same build, other tool flags; shown in evidence
        self.argv = list(argv)
        self.timeout = timeout
        self.env_extra = env_extra or {}
        self.label = label or " ".join(argv)

    def cmd(self):
        pre = self.cfg.run_prefix()
        if self.env_extra.get("VERIF_NOLEAK") and self.cfg.tool == "vg":
            pre = [a for a in pre if not a.startswith("--leak-check") and not a.startswith("--errors-for-leak-kinds")] + []
            pre.insert(1, "--leak-check=no")
        return pre + self.argv


def classify(job, rc, out, err, timed_out):
    r = JobResult(job)
    r.stdout_tail = out[-3000:]
    r.stderr_tail = err[-3000:]
    summary = None
    early = []
    for line in out.splitlines():
        line = line.strip()
        if line.startswith("{") and line.endswith("}"):
            try:
                d = json.loads(line)
            except Exception:
                continue
            if "early_violation" in d:
                early.append(d["early_violation"])
            elif "workload" in d:
                summary = d
    r.summary = summary
    both = out + "\n" + err
    if timed_out:
        r.verdict, r.reason = INCONCLUSIVE, f"watchdog timeout after {job.timeout}s"
        return r
    mem = None
    if "Undefined Behavior" in err or "error: Undefined Behavior" in both:
        m = re.search(r"error: Undefined Behavior: (.*)", both)
        mem = "Miri: Undefined Behavior: " + (m.group(1) if m else "")
    elif "memory leaked" in err and job.cfg.tool.startswith("miri"):
        m = re.search(r"error: memory leaked: (.*)", both)
        mem = "Miri: memory leaked: " + (m.group(1)[:200] if m else "")
    elif "ERROR: AddressSanitizer" in both:
        m = re.search(r"ERROR: AddressSanitizer: (.*)", both)
        mem = "AddressSanitizer: " + (m.group(1)[:200] if m else "")
    elif "ERROR: LeakSanitizer" in both:
        mem = "LeakSanitizer: detected memory leaks"
    elif job.cfg.tool == "vg" and rc == 97:
        mem = "valgrind memcheck reported errors"
    elif rc is not None and rc < 0:
        mem = "process died on " + SIGNALS.get(-rc, f"signal {-rc}")
    elif rc == 134 or rc == 139:
        mem = f"process died (exit status {rc})"
    if mem:
        r.verdict, r.reason = VIOLATED, mem
        r.tags = ["memory", "ANY"]
        if early:
            r.reason += " | registry: " + "; ".join(early[:3])
            r.tags.append("C04")
        return r
    if summary is not None and summary.get("violation"):
        v = summary["violation"]
        r.verdict = VIOLATED
        r.tags = list(v.get("tags", []))
        r.reason = f"[{v.get('oracle')}] step {v.get('step')}: {v.get('detail')}"
        return r
    if rc == 0 and summary is not None:
        if early:
            r.verdict, r.reason, r.tags = VIOLATED, "registry: " + "; ".join(early[:3]), ["C04"]
            return r
        r.verdict = HELD
        return r
    if rc == 101:
        r.reason = "harness panic (exit 101): " + err.strip().splitlines()[-1][:300] if err.strip() else "harness panic"
    else:
        r.reason = f"unexpected exit status {rc} without a summary"
    return r


def run_job(job):
    env = job.cfg.env()
    env.update(job.env_extra)
    t0 = time.time()
    timed_out = False
    try:
        p = subprocess.Popen(job.cmd(), cwd=HARNESS, env=env, stdin=subprocess.DEVNULL, stdout=subprocess.PIPE, stderr=subprocess.PIPE, text=True, start_new_session=True)
        try:
            out, err = p.communicate(timeout=job.timeout)
        except subprocess.TimeoutExpired:
            timed_out = True
            try:
                os.killpg(p.pid, signal.SIGKILL)
            except Exception:
                pass
            out, err = p.communicate()
        rc = p.returncode
    except Exception as ex:  # tool missing etc.
        r = JobResult(job)
        r.reason = f"could not start: {ex}"
        return r
    r = classify(job, rc, out or "", err or "", timed_out)
    r.wall = time.time() - t0
    return r


def run_jobs(jobs, workers=NCPU):
    results = []
    with cf.ThreadPoolExecutor(max_workers=workers) as ex:
        for r in ex.map(run_job, jobs):
            results.append(r)
    return results


def merge_counters(results):
    total = {}
    for r in results:
        if r.summary:
            for k, v in r.summary.get("counters", {}).items():
                if k.startswith("max_") or k == "digest_lo32":
                    total[k] = max(total.get(k, 0), v)
                else:
                    total[k] = total.get(k, 0) + v
    return total


def merge_distinct(results):
    """Per category: (max over processes, sum over processes). The max is a sound lower
    bound of the number of distinct items over the whole run; the union is not computed."""
    mx, sm = {}, {}
    for r in results:
        if r.summary:
            for k, v in r.summary.get("distinct", {}).items():
                mx[k] = max(mx.get(k, 0), v)
                sm[k] = sm.get(k, 0) + v
    return mx, sm


def load_known():
    p = os.path.join(VERIF, "known_findings.json")
    try:
        return json.load(open(p))
    except Exception:
        return {"open": [], "fixed": []}


def write_evidence(pid, tier, seed, level, coverage, wall, violations, assumptions):
    os.makedirs(os.path.join(VERIF, "evidence"), exist_ok=True)
    ev = {
        "property_id": pid,
        "tier": tier,
        "seed": seed,
        "level": level,
        "coverage": coverage,
        "assumptions": assumptions,
        "wall_s": round(wall, 2),
        "violations": violations,
    }
    path = os.path.join(VERIF, "evidence", f"{pid}.json")
    tmp = path + ".tmp"
    with open(tmp, "w") as f:
        json.dump(ev, f, indent=1, sort_keys=True)
    os.replace(tmp, path)
    return path


def write_replay(pid, r, seed):
    os.makedirs(os.path.join(VERIF, "replays"), exist_ok=True)
    name = f"{pid}-{r.job.cfg.tag}-{seed}-{abs(hash(r.job.label)) % 100000}.json"
    path = os.path.join(VERIF, "replays", name)
    doc = {
        "property": pid,
        "config": {"tool": r.job.cfg.tool, "features": list(r.job.cfg.features)},
        "argv": r.job.argv,
        "env_extra": r.job.env_extra,
        "verdict": r.verdict,
        "tags": r.tags,
        "reason": r.reason,
        "violation": (r.summary or {}).get("violation"),
        "stderr_tail": r.stderr_tail[-1500:],
        "how_to_replay": f"./check replay {path}",
    }
    with open(path, "w") as f:
        json.dump(doc, f, indent=1)
    return path
