"""Regenerates /verif/MANIFEST.json from the property tables (run: python3 lib/manifest.py)."""
import json
import os
import sys

sys.path.insert(0, os.path.dirname(os.path.abspath(__file__)))
import e1  # noqa: E402

VERIF = os.path.dirname(os.path.dirname(os.path.abspath(__file__)))
ALL = [json.loads(l)["id"] for l in open(os.path.join(VERIF, "properties.jsonl"))]

TEXT = {
    "exploration": "Runtime monitoring: the real code is driven by seeded hostile histories while a lock-step reference model, a drop/clone registry, a slot-map invariant walker (hook H1) and Miri/ASan/LSan observe every step. Held on the executions observed (counts in the evidence file), not proved; exploration is the honest level for a property quantified over all histories/inputs.",
    "fault_enumeration": "Runtime monitoring with enumerated fault points: for each operation instance every admissible panic point (k-th closure call / Clone / Drop, version and capacity overflow, borrow conflict) is injected, the panic is caught, and the full oracle suite is run on the surviving world. Enumeration is complete per explored operation instance, sampled over histories.",
}


def main():
    checks = []
    for pid in ALL:
        p = e1.PROPS.get(pid)
        if not p:
            continue
        checks.append({
            "property_id": pid,
            "quick_cmd": f"./check run {pid} --tier quick",
            "thorough_cmd": f"./check run {pid} --tier thorough",
            "evidence_file": f"/verif/evidence/{pid}.json",
            "replay_cmd_template": "./check replay {path}",
            "engine": getattr(p, "engine", "E1"),
            "level_claimed": {"category": p.level, "text": getattr(p, "level_text", TEXT[p.level]), "design_ref": p.design_ref},
            "level_note": "; ".join(p.assumptions),
            "technique": getattr(p, "technique", "runtime monitoring: differential history testing against an executable model + Miri / AddressSanitizer / LeakSanitizer"),
        })
    import e23
    for pid in ALL:
        if pid in ("C05", "C15", "C16", "C18"):
            checks.append({
                "property_id": pid,
                "quick_cmd": f"./check run {pid} --tier quick",
                "thorough_cmd": f"./check run {pid} --tier thorough",
                "evidence_file": f"/verif/evidence/{pid}.json",
                "replay_cmd_template": "./check replay {path}",
                "engine": "E3+E2",
                "level_claimed": {"category": "exploration", "text": "Runtime monitoring of the macro code itself: the generator code of /repo/macros is executed in-process on ~10^4-10^5 generated declarations/queries per run (E3) and for real inside rustc on generated client programs whose output / compile verdict is compared with an independent reference (E2). Sampled programs, not a proof over all programs.", "design_ref": f"DESIGN.md section 4, {pid}"},
                "level_note": "reference written from the documentation (mlib/src/gen.rs); rustc verdicts trusted; programs sampled by a seeded generator; corpus finite",
                "technique": "runtime monitoring of macro expansion: in-process execution of the generator code + compile-and-run of generated client programs against a reference; rustc verdicts on a corpus of unsound programs with sound twins",
            })
    checks.sort(key=lambda c: c["property_id"])
    claimed = {c["property_id"] for c in checks}
    na = [{"property_id": pid, "reason": NA_REASON.get(pid, "check not built yet in this framework revision (planned, see DESIGN.md section 4)")} for pid in ALL if pid not in claimed]
    m = {
        "version": 1,
        "setup_cmd": "./check setup",
        "hooks": {
            "guard": "gecs_verif",
            "enable": "RUSTFLAGS=\"--cfg gecs_verif\" (set by ./check for every build of the harness against /repo)",
            "baseline_off_cmd": "cd /repo && cargo test --workspace --no-fail-fast --offline",
            "source_commits": ["421ccb1"],
            "add_only": True,
        },
        "engines": [
            {"name": "E1", "path": "/verif/harness", "serves_properties": sorted(pid for pid in claimed if pid in e1.PROPS),
             "kind_free_text": "Rust history/differential harness (model, drop registry, invariant walker, fault injector) run natively (debug/release), under Miri, AddressSanitizer+LeakSanitizer and valgrind memcheck"},
            {"name": "E3", "path": "/verif/mlib", "serves_properties": ["C05", "C15", "C16", "C18"],
             "kind_free_text": "the gecs_macros sources (#[path]-included from /repo) driven as a library on generated declarations/queries; token walker + reference"},
            {"name": "E2", "path": "/verif/lib/e23.py", "serves_properties": ["C05", "C15", "C16", "C18"],
             "kind_free_text": "generated client programs compiled by rustc against the freshly built gecs and run; reject-class programs and an unsound-program corpus compiled for the verdict"},
        ],
        "checks": checks,
        "not_applicable": na,
        "notes": "Driver: ./check (python3 stdlib). Exit 2 + an INCONCLUSIVE line means no verdict (build failure, watchdog, too little observed); it is never reported as a violation. Known findings: known_findings.json.",
    }
    with open(os.path.join(VERIF, "MANIFEST.json"), "w") as f:
        json.dump(m, f, indent=1)
    print(f"{len(checks)} checks, {len(na)} not claimed")


NA_REASON = {}

if __name__ == "__main__":
    main()
