#!/bin/bash
# usage: seed_confirm.sh <worktree> <diff> <demo.rs>
# Confirms in a scratch worktree: (1) suite passes with the change, (2) demo fails with it, (3) demo passes without.
set -u
WT=$1; DIFF=$2; DEMO=$3
cd "$WT" || exit 9
git checkout -q -- . ; rm -f tests/zz_seed_demo.rs
export CARGO_NET_OFFLINE=true
git apply "$DIFF" || { echo "APPLY-FAILED"; exit 9; }
suite=$(cargo test --workspace --no-fail-fast --offline 2>&1 | grep -E "^test result" | awk '{p+=$4; f+=$6} END {print p" passed "f" failed"}')
echo "suite-with-change: $suite"
cp "$DEMO" tests/zz_seed_demo.rs
cargo test --offline ${SEED_FEATURES:-} --test zz_seed_demo >/tmp/seed_demo_${SEED_TAG:-x}_with.log 2>&1; rc_with=$?
cargo test --offline --release ${SEED_FEATURES:-} --test zz_seed_demo >/tmp/seed_demo_${SEED_TAG:-x}_with_rel.log 2>&1; rc_with_rel=$?
echo "demo-with-change: debug rc=$rc_with release rc=$rc_with_rel"
git checkout -q -- .
cargo test --offline ${SEED_FEATURES:-} --test zz_seed_demo >/tmp/seed_demo_${SEED_TAG:-x}_without.log 2>&1; rc_without=$?
echo "demo-without-change: rc=$rc_without"
rm -f tests/zz_seed_demo.rs
git status --short | head -3
