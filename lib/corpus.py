"""C18 corpus: minimal unsound / ill-formed client programs, each with a sound twin that
differs by one edit and must compile. The oracle is rustc's verdict and diagnostic class."""

HEAD = """#![forbid(unsafe_code)]
#![allow(unused, unused_must_use)]
use gecs::prelude::*;
#[derive(Clone)]
pub struct CompA(pub u32);
#[derive(Clone)]
pub struct CompB(pub u32);
pub struct CompRc(pub std::rc::Rc<u32>);
ecs_world! {
    ecs_archetype!(ArchFoo, CompA, CompB);
    ecs_archetype!(ArchBar, CompA);
}
pub mod rcw {
    use super::*;
    ecs_world! {
        ecs_name!(RcWorld);
        ecs_archetype!(ArchRc, CompRc);
    }
}
fn assert_send<T: Send>() {}
fn assert_sync<T: Sync>() {}
fn assert_css<T: Copy + Send + Sync>() {}
fn main() {
    let mut world = EcsWorld::default();
    let e = world.create::<ArchFoo>((CompA(1), CompB(2)));
    let e2 = world.create::<ArchFoo>((CompA(3), CompB(4)));
"""
TAIL = "\n}\n"

BORROWCK = {"E0499", "E0502", "E0505", "E0506", "E0597", "E0716", "E0521", "E0382", "E0503", "E0713", "E0373", "E0501", "E0500", "E0524"}

# what is kept: (name, statement that takes it, statement that uses it afterwards)
KEEP = [
    ("view", "let mut kept = world.view(e).unwrap();", "kept.component_mut::<CompA>().0 += 1;"),
    ("arch_view", "let kept = world.arch_foo.view(e).unwrap();", "let _ = kept.comp_a.0;"),
    ("borrow", "let kept = world.borrow(e).unwrap();", "let _ = kept.component::<CompA>().0;"),
    ("ref_guard", "let b = world.arch_foo.borrow(e).unwrap(); let kept = b.component::<CompA>();", "let _ = kept.0;"),
    ("refmut_guard", "let b = world.arch_foo.borrow(e).unwrap(); let mut kept = b.component_mut::<CompB>();", "kept.0 += 1;"),
    ("iterator", "let mut kept = world.arch_foo.iter();", "let _ = kept.next();"),
    ("iterator_item", "let kept = world.arch_foo.iter_mut().next().unwrap();", "kept.1 .0 += 1;"),
    ("get_slice", "let kept = world.arch_foo.get_slice::<CompA>();", "let _ = kept[0].0;"),
    ("get_slice_mut", "let kept = world.arch_foo.get_slice_mut::<CompB>();", "kept[0].0 += 1;"),
    ("borrow_slice", "let kept = world.arch_foo.borrow_slice::<CompA>();", "let _ = kept[0].0;"),
    ("borrow_slice_mut", "let mut kept = world.archetype::<ArchFoo>().borrow_slice_mut::<CompA>();", "kept[0].0 += 1;"),
    ("entities", "let kept = world.arch_foo.entities();", "let _ = kept[0];"),
    ("all_slices", "let kept = world.arch_foo.get_all_slices_mut();", "kept.comp_a[0].0 += 1;"),
    ("component_ref", "let kept: &CompA = &world.arch_foo.get_slice::<CompA>()[0];", "let _ = kept.0;"),
    ("archetype_ref", "let kept = world.archetype::<ArchFoo>();", "let _ = kept.len();"),
    # the storage itself is reachable through the public (doc(hidden)) `data` field
    ("storage_iter", "let mut kept = world.arch_foo.data.iter();", "let _ = kept.next();"),
    ("storage_iter_item", "let kept = world.arch_foo.data.iter().next().unwrap();", "let _ = kept.1 .0;"),
    ("storage_iter_mut_item", "let kept = world.arch_foo.data.iter_mut().next().unwrap();", "kept.2 .0 += 1;"),
    ("storage_get_slice", "let kept = world.arch_foo.data.get_slice_0();", "let _ = kept[0].0;"),
    ("storage_get_slice_mut", "let kept = world.arch_foo.data.get_slice_mut_1();", "kept[0].0 += 1;"),
    ("storage_borrow_slice", "let kept = world.arch_foo.data.borrow_slice_0();", "let _ = kept[0].0;"),
    ("storage_entities", "let kept = world.arch_foo.data.get_slice_entities();", "let _ = kept[0];"),
    ("storage_begin_borrow", "let kept = world.arch_foo.data.begin_borrow(e).unwrap();", "let _ = kept.borrow_component_0().0;"),
    ("storage_view", "let kept: <ArchFoo as Archetype>::View<'_> = world.arch_foo.data.get_view_mut(e).unwrap();", "kept.comp_a.0 += 1;"),
]

# structural changes of the archetype the kept thing points into
CHANGE = [
    ("world_create", "world.create::<ArchFoo>((CompA(9), CompB(9)));"),
    ("world_destroy", "world.destroy(e2);"),
    ("within_capacity", "let _ = world.create_within_capacity::<ArchFoo>((CompA(9), CompB(9)));"),
    ("arch_create", "world.arch_foo.create((CompA(9), CompB(9)));"),
    ("arch_destroy_any", "world.arch_foo.destroy(e2.into_any());"),
    ("clone_into_self", "world = world.clone();"),
    ("iter_destroy", "ecs_iter_destroy!(world, |_x: &Entity<ArchFoo>| { EcsStepDestroy::ContinueDestroy });"),
]

ENTITY_KINDS = ["Entity<ArchFoo>", "Entity<_>", "EntityAny", "EntityDirect<ArchFoo>", "EntityDirect<_>", "EntityDirectAny"]
MACROS = ["ecs_find", "ecs_find_borrow", "ecs_iter", "ecs_iter_borrow", "ecs_iter_destroy"]


def call(mac, params, body=""):
    ret = " EcsStepDestroy::Continue" if mac == "ecs_iter_destroy" else ""
    if mac.startswith("ecs_find"):
        return f"let _ = {mac}!(world, e, |{params}| {{ {body} }});"
    return f"{mac}!(world, |{params}| {{ {body}{ret} }});"


def corpus(full):
    """Returns a list of dicts: name, src, expect ('ok' | set of codes | message substring)."""
    out = []

    def add(name, neg_body, twin_body, expect):
        out.append({"name": name, "src": HEAD + neg_body + TAIL, "expect": expect, "twin": False})
        out.append({"name": name + "~twin", "src": HEAD + twin_body + TAIL, "expect": "ok", "twin": True})

    keeps = KEEP if full else KEEP
    changes = CHANGE if full else CHANGE
    for kn, take, use in keeps:
        for cn, change in changes:
            if not full and (hash((kn, cn)) % 3 == 0) and cn not in ("world_create", "world_destroy"):
                pass  # quick keeps everything too: each file costs ~0.2 s
            neg = f"    {take}\n    {change}\n    {use}"
            twin = f"    {{ {take}\n    {use} }}\n    {change}"
            add(f"keep_{kn}_across_{cn}", neg, twin, BORROWCK)
    # a closure argument may not escape the query
    for mac in MACROS:
        neg = "    let mut keep: Option<&CompA> = None;\n    " + call(mac, "a: &CompA", "keep = Some(a);") + "\n    world.destroy(e);\n    let _ = keep.map(|k| k.0);"
        twin = "    let mut keep: Option<u32> = None;\n    " + call(mac, "a: &CompA", "keep = Some(a.0);") + "\n    world.destroy(e);\n    let _ = keep;"
        add(f"escape_component_ref_{mac}", neg, twin, BORROWCK)
    # two mutable accesses to one component in one query (compile-time macros)
    for mac in ["ecs_find", "ecs_iter", "ecs_iter_destroy"]:
        add(f"two_mut_same_component_{mac}", "    " + call(mac, "a: &mut CompA, b: &mut CompA", "a.0 += b.0;"), "    " + call(mac, "a: &mut CompA, b: &mut CompB", "a.0 += b.0;"), BORROWCK)
        add(f"mut_and_shared_same_component_{mac}", "    " + call(mac, "a: &mut CompA, b: &CompA", "a.0 += b.0;"), "    " + call(mac, "a: &mut CompA, b: &CompB", "a.0 += b.0;"), BORROWCK)
    # mutable access to an entity-handle parameter
    for mac in MACROS:
        for k in ENTITY_KINDS:
            add(f"mut_entity_param_{mac}_{k}", "    " + call(mac, f"h: &mut {k}"), "    " + call(mac, f"h: &{k}"), "mut entity access is forbidden")
    # the closure may not touch the archetype being iterated, but may touch another one
    for mac in ["ecs_iter", "ecs_iter_destroy", "ecs_find"]:
        add(f"closure_touches_iterated_archetype_{mac}", "    " + call(mac, "_x: &Entity<ArchFoo>, a: &mut CompA", "a.0 += world.arch_foo.len() as u32;"),
            "    " + call(mac, "_x: &Entity<ArchFoo>, a: &mut CompA", "a.0 += world.arch_bar.len() as u32;"), BORROWCK)
    add("closure_creates_in_iterated_archetype", "    " + call("ecs_iter_borrow", "_x: &Entity<ArchFoo>, a: &CompA", "world.arch_foo.create((CompA(a.0), CompB(0)));"),
        "    " + call("ecs_iter_borrow", "_x: &Entity<ArchFoo>, a: &CompA", "let _ = world.arch_foo.len();"), BORROWCK | {"E0596"})
    # sharing a world between threads
    add("share_world_thread_scope", "    std::thread::scope(|s| { s.spawn(|| { let _ = world.arch_foo.len(); }); });",
        "    std::thread::scope(|s| { let h = e; s.spawn(move || { let _ = h; }); }); let _ = world.arch_foo.len();", {"E0277"})
    add("share_world_ref_spawn", "    let w: &'static EcsWorld = Box::leak(Box::new(EcsWorld::default()));\n    std::thread::spawn(move || { let _ = w.arch_foo.len(); });",
        "    let w: &'static EcsWorld = Box::leak(Box::new(EcsWorld::default()));\n    let _ = w.arch_foo.len();", {"E0277"})
    add("world_is_sync", "    assert_sync::<EcsWorld>();", "    assert_send::<EcsWorld>();", {"E0277"})
    add("archetype_is_sync", "    assert_sync::<ArchFoo>();", "    assert_send::<ArchFoo>();", {"E0277"})
    add("rc_world_is_send", "    assert_send::<rcw::RcWorld>();", "    assert_css::<Entity<rcw::ArchRc>>(); assert_css::<EntityDirect<rcw::ArchRc>>(); assert_css::<EntityAny>(); assert_css::<EntityDirectAny>();", {"E0277"})
    add("move_rc_world_to_thread", "    let w = rcw::RcWorld::default();\n    std::thread::spawn(move || { drop(w); });",
        "    let w = EcsWorld::default();\n    std::thread::spawn(move || { drop(w); }).join();", {"E0277"})
    # borrows may not outlive the world
    add("view_outlives_world", "    let v = { let mut w2 = EcsWorld::default(); let x = w2.create::<ArchBar>((CompA(1),)); w2.view(x) };\n    let _ = v.map(|v| v.comp_a.0);",
        "    let v = { let mut w2 = EcsWorld::default(); let x = w2.create::<ArchBar>((CompA(1),)); w2.view(x).map(|v| v.comp_a.0) };\n    let _ = v;", BORROWCK)
    add("guard_outlives_borrow", "    let r;\n    { let b = world.borrow(e).unwrap(); r = b.component::<CompA>(); }\n    let _ = r.0;",
        "    let r;\n    { let b = world.borrow(e).unwrap(); r = b.component::<CompA>().0; }\n    let _ = r;", BORROWCK)
    add("iterator_outlives_world", "    let it = { let mut w2 = EcsWorld::default(); w2.arch_bar.iter().count(); w2.arch_bar.iter() };",
        "    let it = { let mut w2 = EcsWorld::default(); w2.arch_bar.iter().count() };", BORROWCK)
    # reference conversions between typed and dynamic handles keep the lifetime of their source
    add("entity_ref_into_any_across_destroy", "    let kept: &EntityAny = (&world.arch_foo.entities()[0]).into();\n    world.destroy(e2);\n    let _ = kept.raw();",
        "    { let kept: &EntityAny = (&world.arch_foo.entities()[0]).into();\n    let _ = kept.raw(); }\n    world.destroy(e2);", BORROWCK)
    add("entity_ref_into_any_outlives_local", "    let kept: &EntityAny;\n    { let tmp = e; kept = (&tmp).into(); }\n    let _ = kept.raw();",
        "    let kept: EntityAny;\n    { let tmp = e; kept = *<&EntityAny>::from(&tmp); }\n    let _ = kept.raw();", BORROWCK)
    add("direct_ref_into_any_outlives_local", "    let d = world.to_direct(e).unwrap();\n    let kept: &EntityDirectAny;\n    { let tmp = d; kept = (&tmp).into(); }\n    let _ = kept.archetype_id();",
        "    let d = world.to_direct(e).unwrap();\n    let kept: EntityDirectAny;\n    { let tmp = d; kept = *<&EntityDirectAny>::from(&tmp); }\n    let _ = kept.archetype_id();", BORROWCK)
    add("entity_mut_ref_into_any_outlives_local", "    let kept: &mut EntityAny;\n    { let mut tmp = e; kept = (&mut tmp).into(); }\n    let _ = kept.raw();",
        "    let kept: EntityAny;\n    { let mut tmp = e; kept = *<&mut EntityAny>::from(&mut tmp); }\n    let _ = kept.raw();", BORROWCK)
    add("direct_mut_ref_into_any_outlives_local", "    let d = world.to_direct(e).unwrap();\n    let kept: &mut EntityDirectAny;\n    { let mut tmp = d; kept = (&mut tmp).into(); }\n    let _ = kept.archetype_id();",
        "    let d = world.to_direct(e).unwrap();\n    let kept: EntityDirectAny;\n    { let mut tmp = d; kept = *<&mut EntityDirectAny>::from(&mut tmp); }\n    let _ = kept.archetype_id();", BORROWCK)
    # handles are plain data
    add("handles_are_copy_send_sync", "    assert_css::<EcsWorld>();", "    assert_css::<Entity<ArchFoo>>(); assert_css::<EntityDirect<ArchBar>>(); assert_css::<SelectEntity>();", {"E0277"})
    return out
